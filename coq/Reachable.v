From Coq Require Import Arith NArith Bool Lia List.
Require Import Canon SemTk TableProto BddBase BddIte BddSat Glue Machine.
Import ListNotations.
Local Open Scope N_scope.

(* Vocabulary shared by the property files: reachable manager states, live handles, denotation.
   Everything is parameterised by the configuration (node hash, key hash, bucket / cache masks, capacity) and by the
   implementations of the per-call memo tables; the property theorems quantify over all of them. *)
Section Reach.
  Variable nhash : node -> N.
  Variable khash : key -> N.
  Variable bmask cmask0 smask0 capacity : N.
  Context {MS : Memo ref ref} {MC : Memo (ref * ref) ref} {MQ : Memo (nat * ref) ref} {MN : Memo ref N}.

  Local Instance rops : StoreOps := concrete_ops nhash khash.
  Local Instance rok : StoreOK := concrete_ok nhash khash.

  Definition mstep := @step nhash khash MS MC MQ MN.
  Definition mrun := @run nhash khash MS MC MQ MN.
  Definition minit : mstate * regs := (init bmask cmask0 smask0 capacity, []).

  (* a state of the manager reached from creation by any history of API calls (collections included), any fuel *)
  Inductive reachable : mstate * regs -> Prop :=
  | reach_init : reachable minit
  | reach_step mr fuel o mr' x : reachable mr -> mstep fuel mr o = Some (mr', x) -> reachable mr'.

  Definition liveh (mr : mstate * regs) (a : rarg) (r : ref) : Prop := fetch (snd mr) a = Some r.
  Definition store (mr : mstate * regs) : state := core (fst mr).
  (* handle r denotes the Boolean function F in the manager state mr *)
  Definition denotes (mr : mstate * regs) (r : ref) (F : bfun) : Prop :=
    exists t, V (store mr) r t /\ forall e, rsem r t e = F e.

  Hypothesis cap_ok : 2 <= capacity.

  Lemma reachable_good mr : reachable mr -> Good nhash khash mr.
  Proof.
    induction 1 as [|mr fuel o mr' x _ IH Hs]; [apply init_good; exact cap_ok|]. eapply (step_good nhash khash); eauto.
  Qed.

  Lemma run_reachable fuel : forall h mr mr' xs, reachable mr -> mrun fuel mr h = Some (mr', xs) -> reachable mr'.
  Proof.
    induction h as [|o h IH]; intros mr mr' xs HR H; unfold mrun in H; cbn [run] in H; [injection H as <- <-; exact HR|].
    destruct (step nhash khash fuel mr o) as [[mr1 x]|] eqn:E; [|discriminate].
    destruct (run nhash khash fuel mr1 h) as [[mr2 xs2]|] eqn:E2; [|discriminate]. injection H as <- <-.
    eapply IH; [|exact E2]. econstructor; eauto.
  Qed.

  Lemma live_valid mr a r : reachable mr -> liveh mr a r -> exists t, V (store mr) r t.
  Proof.
    intros HR HL. destruct (reachable_good _ HR) as (_ & _ & _ & Hg). eapply (fetch_good nhash khash); eauto.
  Qed.
  Lemma live_denotes mr a r : reachable mr -> liveh mr a r -> exists F, denotes mr r F.
  Proof. intros HR HL. destruct (live_valid _ _ _ HR HL) as (t & Ht). exists (rsem r t), t. auto. Qed.

  Lemma denotes_fun mr r F G : denotes mr r F -> denotes mr r G -> forall e, F e = G e.
  Proof. intros (t1 & V1 & S1) (t2 & V2 & S2) e. rewrite <- S1, <- S2. now rewrite (V_fun _ _ _ _ V1 V2). Qed.
  Lemma denotes_neg mr r F : denotes mr r F -> denotes mr (rneg r) (fun e => negb (F e)).
  Proof.
    intros (t & Vt & St). exists t. split; [now apply V_neg|]. intro e. rewrite <- St. unfold rsem, rneg; cbn. now destruct (neg r), (tsem t e).
  Qed.
End Reach.
