From Coq Require Import Arith NArith Bool Lia List.
Require Import Canon SemTk BddBase BddIte BddSat BddCof.
Import ListNotations.
Local Open Scope N_scope.

Section Cof2.
  Context {SO : StoreOps} {OK : StoreOK} {MS : Memo ref ref}.

  (* HashMap<u32,bool> as an association list *)
  Fixpoint vget (values : list (N * bool)) (i : N) : option bool :=
    match values with [] => None | (j, b) :: r => if N.eqb i j then Some b else vget r i end.
  Definition override (e : env) (values : list (N * bool)) : env :=
    fun w => match vget values w with Some b => b | None => e w end.

  (* src/bdd.rs substitute_multi_ *)
  Fixpoint smulti (fuel : nat) (s : st) (m : memo) (f : ref) (values : list (N * bool)) : option (st * memo * ref) :=
    match fuel with O => None | S fuel =>
    if is_term f then Some (s, m, f) else
    match values with [] => Some (s, m, f) | _ =>
    match mget m f with
    | Some r => Some (s, m, r)
    | None =>
      let i := top s f in
      match vget values i with
      | Some b =>
        match smulti fuel s m (if b then high_node s f else low_node s f) values with
        | None => None | Some (s1, m1, r) => Some (s1, mput m1 f r, r) end
      | None =>
        match smulti fuel s m (low_node s f) values with None => None | Some (s1, m1, l') =>
        match smulti fuel s1 m1 (high_node s1 f) values with None => None | Some (s2, m2, h') =>
        match mk_node s2 i l' h' with None => None | Some (s3, r) => Some (s3, mput m2 f r, r) end end end
      end
    end end
    end.

  Definition MEntry (s : st) (values : list (N * bool)) (k r : ref) : Prop :=
    exists tk tr, V s k tk /\ V s r tr /\ (forall e, rsem r tr e = rsem k tk (override e values)) /\
      (forall lb, above lb tk -> above lb tr) /\ (forall vs, tvars_in vs tk -> tvars_in vs tr).
  Definition MMInv (s : st) (values : list (N * bool)) (m : memo) : Prop := forall k r, mget m k = Some r -> MEntry s values k r.
  Lemma MEntry_ext s s' vl k r : sext s s' -> MEntry s vl k r -> MEntry s' vl k r.
  Proof. intros E (tk & tr & ? & ? & ? & ? & ?). exists tk, tr. splits; eauto using V_ext. Qed.

  Definition MPost (s s' : st) (vl : list (N * bool)) (m' : memo) (f r : ref) (tf : tree) : Prop :=
    Inv s' /\ sext s s' /\ (forall k, cget s' k = cget s k) /\ MMInv s' vl m' /\
    exists tr, V s' r tr /\ (forall e, rsem r tr e = rsem f tf (override e vl)) /\
      (forall lb, above lb tf -> above lb tr) /\ (forall vs, tvars_in vs tf -> tvars_in vs tr).

  Lemma override_nil e : forall w, override e [] w = e w. Proof. reflexivity. Qed.

  Lemma smulti_ok vl : forall fuel s m f s' m' r tf,
    Inv s -> MMInv s vl m -> V s f tf -> smulti fuel s m f vl = Some (s', m', r) -> MPost s s' vl m' f r tf.
  Proof.
    induction fuel as [|fuel IH]; intros s m f s' m' r tf HT HM Vf H; [discriminate|]. cbn [smulti] in H.
    destruct (is_term f) eqn:C1.
    { injection H as <- <- <-. assert (Ef : idx f = 1) by (unfold is_term in C1; rewrite term_idx in C1; now apply N.eqb_eq).
      pose proof (V_term _ _ _ Ef Vf) as ->. unfold MPost. splits; auto using sext_refl. exists Leaf. splits; auto. }
    assert (Hfnt : idx f <> 1) by (rewrite <- N.eqb_neq, <- term_idx; exact C1).
    destruct vl as [|v0 vl0] eqn:Evl.
    { injection H as <- <- <-. unfold MPost. splits; auto using sext_refl. exists tf. splits; auto. }
    rewrite <- Evl in *. clear Evl v0 vl0.
    destruct (mget m f) as [rc|] eqn:Hm.
    { injection H as <- <- <-. destruct (HM _ _ Hm) as (tk & tr & Vk & Vr & Sr & Br & Wr).
      pose proof (V_fun _ _ _ _ Vk Vf) as ->. unfold MPost. splits; auto using sext_refl. exists tr. splits; auto. }
    destruct tf as [|vi ln tl th]; [destruct (top_leaf _ _ HT Vf); contradiction|].
    destruct (lh_ok _ _ _ _ _ _ HT Vf) as (Vl & Vh & Al & Ah & Hv0 & Ht & Sf). rewrite Ht in H.
    assert (Hov : forall e, rsem f (Nd vi ln tl th) (override e vl) =
              if override e vl vi then rsem (high_node s f) th (override e vl) else rsem (low_node s f) tl (override e vl)) by (intro e; apply Sf).
    destruct (vget vl vi) as [b|] eqn:Hg.
    - (* the top variable is assigned: follow one branch *)
      destruct (smulti fuel s m (if b then high_node s f else low_node s f) vl) as [[[s1 m1] r1]|] eqn:H1; [|discriminate].
      injection H as <- <- <-.
      assert (Hb : forall e, override e vl vi = b) by (intro e; unfold override; now rewrite Hg).
      destruct b.
      + destruct (IH _ _ _ _ _ _ _ HT HM Vh H1) as (HT1 & E1 & K1 & HM1 & tr & Vr & Sr & Br & Wr).
        assert (Hsem : forall e, rsem r1 tr e = rsem f (Nd vi ln tl th) (override e vl)) by (intro e; rewrite Sr, Hov, Hb; reflexivity).
        unfold MPost. splits; auto.
        * intros k r Hk. apply mget_put in Hk. destruct Hk as [[-> ->]|Hk]; [|apply HM1; exact Hk].
          exists (Nd vi ln tl th), tr. splits; eauto using V_ext; [intros lb (? & ? & ?); auto|intros vs (? & ? & ?); auto].
        * exists tr. splits; auto; [intros lb (? & ? & ?); auto|intros vs (? & ? & ?); auto].
      + destruct (IH _ _ _ _ _ _ _ HT HM Vl H1) as (HT1 & E1 & K1 & HM1 & tr & Vr & Sr & Br & Wr).
        assert (Hsem : forall e, rsem r1 tr e = rsem f (Nd vi ln tl th) (override e vl)) by (intro e; rewrite Sr, Hov, Hb; reflexivity).
        unfold MPost. splits; auto.
        * intros k r Hk. apply mget_put in Hk. destruct Hk as [[-> ->]|Hk]; [|apply HM1; exact Hk].
          exists (Nd vi ln tl th), tr. splits; eauto using V_ext; [intros lb (? & ? & ?); auto|intros vs (? & ? & ?); auto].
        * exists tr. splits; auto; [intros lb (? & ? & ?); auto|intros vs (? & ? & ?); auto].
    - destruct (smulti fuel s m (low_node s f) vl) as [[[s1 m1] l']|] eqn:H1; [|discriminate].
      destruct (smulti fuel s1 m1 (high_node s1 f) vl) as [[[s2 m2] h']|] eqn:H2; [|discriminate].
      destruct (mk_node s2 vi l' h') as [[s3 r3]|] eqn:Hmk; [|discriminate]. injection H as <- <- <-.
      destruct (IH _ _ _ _ _ _ _ HT HM Vl H1) as (HT1 & E1 & K1 & HM1 & t_lo & V_lo & S_lo & B_lo & W_lo).
      assert (Eh : high_node s1 f = high_node s f).
      { unfold high_node. destruct Vf as (HR & _). apply Rep_nd_inv in HR. destruct HR as (_ & l & h & Hc & _). rewrite Hc, (E1 _ _ Hc). reflexivity. }
      rewrite Eh in H2.
      destruct (IH _ _ _ _ _ _ _ HT1 HM1 (V_ext _ _ _ _ E1 Vh) H2) as (HT2 & E2 & K2 & HM2 & t_hi & V_hi & S_hi & B_hi & W_hi).
      destruct (mk_node_ok _ _ _ _ _ _ _ _ HT2 Hmk Hv0 (V_ext _ _ _ _ E2 V_lo) V_hi (B_lo _ Al) (B_hi _ Ah))
        as (HT3 & E3 & K3 & tr & Vr & Sr & Br & Wr).
      assert (E03 : sext s s3) by eauto using sext_trans.
      assert (Hsem : forall e, rsem r3 tr e = rsem f (Nd vi ln tl th) (override e vl)).
      { intro e. rewrite Sr, S_hi, S_lo, Hov. unfold override at 3. rewrite Hg. reflexivity. }
      assert (Hbd : forall lb, above lb (Nd vi ln tl th) -> above lb tr) by (intros lb (? & ? & ?); apply Br; assumption).
      assert (Hwd : forall vs, tvars_in vs (Nd vi ln tl th) -> tvars_in vs tr) by (intros vs (? & ? & ?); apply Wr; auto).
      unfold MPost. splits; auto.
      + intro k. now rewrite K3, K2, K1.
      + intros k r Hk. apply mget_put in Hk. destruct Hk as [[-> ->]|Hk].
        * exists (Nd vi ln tl th), tr. splits; eauto using V_ext.
        * eapply MEntry_ext; [|apply HM2; exact Hk]. exact E3.
      + exists tr. splits; auto.
  Qed.

  (* ================= cofactor_cube: memo keyed by (remaining cube length, handle) ================= *)
  Context {MQ : Memo (nat * ref) ref}.
  Fixpoint ccube (fuel : nat) (s : st) (m : @memo _ _ MQ) (f : ref) (cube : list (N * bool)) : option (st * @memo _ _ MQ * ref) :=
    match fuel with O => None | S fuel =>
    match cube with
    | [] => Some (s, m, f)
    | (u, b) :: rest =>
      if is_term f then Some (s, m, f) else
      match mget m (length cube, f) with
      | Some r => Some (s, m, r)
      | None =>
        let t := top s f in
        match (if u <? t then ccube fuel s m f rest
               else if t =? u then ccube fuel s m (if b then high_node s f else low_node s f) rest
               else match ccube fuel s m (low_node s f) cube with None => None | Some (s1, m1, l') =>
                    match ccube fuel s1 m1 (high_node s1 f) cube with None => None | Some (s2, m2, h') =>
                    match mk_node s2 t l' h' with None => None | Some (s3, r) => Some (s3, m2, r) end end end) with
        | None => None
        | Some (s', m', r) => Some (s', mput m' (length cube, f) r, r)
        end
      end
    end
    end.

  (* ascending cube over distinct variables, all above lb *)
  Fixpoint asc_cube (lb : N) (c : list (N * bool)) : Prop :=
    match c with [] => True | (u, _) :: r => lb < u /\ asc_cube u r end.
  Lemma asc_cube_vget c : forall lb w, asc_cube lb c -> w <= lb -> vget c w = None.
  Proof.
    induction c as [|[u b] r IH]; intros lb w H Hw; [reflexivity|]. destruct H as [Hu Hr]. cbn [vget].
    destruct (N.eqb_spec w u); [lia|]. apply (IH u); auto; lia.
  Qed.

  (* entries of length n are about the suffix of the original cube c0 of that length *)
  Definition suffix (c0 : list (N * bool)) (n : nat) := skipn (length c0 - n) c0.
  Definition QEntry (s : st) (c0 : list (N * bool)) (k : nat * ref) (r : ref) : Prop :=
    exists tk tr, V s (snd k) tk /\ V s r tr /\ (forall e, rsem r tr e = rsem (snd k) tk (override e (suffix c0 (fst k)))) /\
      (forall lb, above lb tk -> above lb tr) /\ (forall vs, tvars_in vs tk -> tvars_in vs tr).
  Definition QMInv (s : st) (c0 : list (N * bool)) (m : @memo _ _ MQ) : Prop := forall k r, mget m k = Some r -> QEntry s c0 k r.
  Lemma QEntry_ext s s' c0 k r : sext s s' -> QEntry s c0 k r -> QEntry s' c0 k r.
  Proof. intros E (tk & tr & ? & ? & ? & ? & ?). exists tk, tr. splits; eauto using V_ext. Qed.
  Lemma QMInv_ext s s' c0 m : sext s s' -> QMInv s c0 m -> QMInv s' c0 m.
  Proof. intros E H k r Hk. eapply QEntry_ext; eauto. Qed.

  Definition QPost (s s' : st) (c0 cube : list (N * bool)) (m' : @memo _ _ MQ) (f r : ref) (tf : tree) : Prop :=
    Inv s' /\ sext s s' /\ (forall k, cget s' k = cget s k) /\ QMInv s' c0 m' /\
    exists tr, V s' r tr /\ (forall e, rsem r tr e = rsem f tf (override e cube)) /\
      (forall lb, above lb tf -> above lb tr) /\ (forall vs, tvars_in vs tf -> tvars_in vs tr).

  Lemma suffix_self c0 cube : (exists pre, c0 = pre ++ cube) -> suffix c0 (length cube) = cube.
  Proof.
    intros [pre ->]. unfold suffix. rewrite app_length. replace (length pre + length cube - length cube)%nat with (length pre) by lia.
    rewrite skipn_app, skipn_all, Nat.sub_diag. reflexivity.
  Qed.

  Lemma ccube_ok c0 : forall fuel s m f cube s' m' r tf lb,
    Inv s -> QMInv s c0 m -> V s f tf -> (exists pre, c0 = pre ++ cube) -> asc_cube lb cube ->
    ccube fuel s m f cube = Some (s', m', r) -> QPost s s' c0 cube m' f r tf.
  Proof.
    induction fuel as [|fuel IH]; intros s m f cube s' m' r tf lb HT HM Vf Hsuf Hasc H; [discriminate|]. cbn [ccube] in H.
    destruct cube as [|[u b] rest].
    { injection H as <- <- <-. unfold QPost. splits; auto using sext_refl. exists tf. splits; auto. }
    destruct (is_term f) eqn:C1.
    { injection H as <- <- <-. assert (Ef : idx f = 1) by (unfold is_term in C1; rewrite term_idx in C1; now apply N.eqb_eq).
      pose proof (V_term _ _ _ Ef Vf) as ->. unfold QPost. splits; auto using sext_refl. exists Leaf. splits; auto. }
    assert (Hfnt : idx f <> 1) by (rewrite <- N.eqb_neq, <- term_idx; exact C1).
    set (cube := (u, b) :: rest) in *.
    destruct (mget m (length cube, f)) as [rc|] eqn:Hm.
    { injection H as <- <- <-. destruct (HM _ _ Hm) as (tk & tr & Vk & Vr & Sr & Br & Wr). cbn [fst snd] in *.
      pose proof (V_fun _ _ _ _ Vk Vf) as ->. rewrite (suffix_self c0 cube Hsuf) in Sr.
      unfold QPost. splits; auto using sext_refl. exists tr. splits; auto. }
    destruct tf as [|vi ln tl th]; [destruct (top_leaf _ _ HT Vf); contradiction|].
    destruct (lh_ok _ _ _ _ _ _ HT Vf) as (Vl & Vh & Al & Ah & Hv0 & Ht & Sf). rewrite Ht in H.
    destruct Hasc as [Hlbu Hrest].
    assert (Hsuf' : exists pre, c0 = pre ++ rest).
    { destruct Hsuf as [pre ->]. exists (pre ++ [(u, b)]). now rewrite <- app_assoc. }
    (* common wrap-up: insert the result under (length cube, f) *)
    assert (Hwrap : forall s1 m1 r1, (exists tr, Inv s1 /\ sext s s1 /\ (forall k, cget s1 k = cget s k) /\ QMInv s1 c0 m1 /\ V s1 r1 tr /\
                       (forall e, rsem r1 tr e = rsem f (Nd vi ln tl th) (override e cube)) /\
                       (forall lb0, above lb0 (Nd vi ln tl th) -> above lb0 tr) /\ (forall vs, tvars_in vs (Nd vi ln tl th) -> tvars_in vs tr)) ->
                     QPost s s1 c0 cube (mput m1 (length cube, f) r1) f r1 (Nd vi ln tl th)).
    { intros s1 m1 r1 (tr & HI1 & E1 & K1 & HM1 & Vr & Sr & Br & Wr). unfold QPost. splits; auto.
      - intros k r0 Hk. apply mget_put in Hk. destruct Hk as [[-> ->]|Hk]; [|apply HM1; exact Hk].
        exists (Nd vi ln tl th), tr. cbn [fst snd]. rewrite (suffix_self c0 cube Hsuf). splits; eauto using V_ext.
      - exists tr. splits; auto. }
    destruct (N.ltb_spec u vi) as [Hlt|Hge].
    - (* f does not depend on u: drop the literal *)
      destruct (ccube fuel s m f rest) as [[[s1 m1] r1]|] eqn:H1; [|discriminate]. injection H as <- <- <-.
      destruct (IH _ _ _ _ _ _ _ _ u HT HM Vf Hsuf' Hrest H1) as (HT1 & E1 & K1 & HM1 & tr & Vr & Sr & Br & Wr).
      apply Hwrap. exists tr. splits; auto. intro e. rewrite Sr. unfold rsem. f_equal.
      apply (tsem_agree (vi :: nil ++ [])) with (vs := []) || idtac.
      (* override with one more binding at u < vi changes nothing f depends on *)
      assert (Habove : above u (Nd vi ln tl th)) by (apply ordered_root_above; [apply Vf|exact Hlt]).
      transitivity (tsem (Nd vi ln tl th) (upd (override e rest) u b)).
      + symmetry. apply tsem_indep. exact Habove.
      + apply tsem_ext. intro w. unfold upd, override, cube. cbn [vget]. destruct (N.eqb w u); reflexivity.
    - destruct (N.eqb_spec vi u) as [->|Hne].
      + (* the literal is on f's top variable *)
        destruct (ccube fuel s m (if b then high_node s f else low_node s f) rest) as [[[s1 m1] r1]|] eqn:H1; [|discriminate]. injection H as <- <- <-.
        assert (Hbr : forall e, rsem f (Nd u ln tl th) (override e cube) =
                   rsem (if b then high_node s f else low_node s f) (if b then th else tl) (override e rest)).
        { intro e. rewrite Sf. unfold override at 1, cube. cbn [vget]. rewrite N.eqb_refl.
          assert (Eo : forall t0, above u t0 -> tsem t0 (override e ((u, b) :: rest)) = tsem t0 (override e rest)).
          { intros t0 A0. transitivity (tsem t0 (upd (override e rest) u b)).
            - apply tsem_ext. intro w. unfold upd, override. cbn [vget]. destruct (N.eqb w u); reflexivity.
            - apply tsem_indep. exact A0. }
          destruct b; unfold rsem; now rewrite Eo. }
        destruct b.
        * destruct (IH _ _ _ _ _ _ _ _ u HT HM Vh Hsuf' Hrest H1) as (HT1 & E1 & K1 & HM1 & tr & Vr & Sr & Br & Wr).
          apply Hwrap. exists tr. splits; auto; [intro e; rewrite Sr, Hbr; reflexivity|intros lb0 (? & ? & ?); auto|intros vs (? & ? & ?); auto].
        * destruct (IH _ _ _ _ _ _ _ _ u HT HM Vl Hsuf' Hrest H1) as (HT1 & E1 & K1 & HM1 & tr & Vr & Sr & Br & Wr).
          apply Hwrap. exists tr. splits; auto; [intro e; rewrite Sr, Hbr; reflexivity|intros lb0 (? & ? & ?); auto|intros vs (? & ? & ?); auto].
      + (* f's top variable is above the literal: rebuild the node over both branches *)
        assert (Hvu : vi < u) by lia.
        destruct (ccube fuel s m (low_node s f) cube) as [[[s1 m1] l']|] eqn:H1; [|discriminate].
        destruct (ccube fuel s1 m1 (high_node s1 f) cube) as [[[s2 m2] h']|] eqn:H2; [|discriminate].
        destruct (mk_node s2 vi l' h') as [[s3 r3]|] eqn:Hmk; [|discriminate]. injection H as <- <- <-.
        assert (Hasc' : asc_cube lb cube) by (cbn; auto).
        destruct (IH _ _ _ _ _ _ _ _ lb HT HM Vl Hsuf Hasc' H1) as (HT1 & E1 & K1 & HM1 & t_lo & V_lo & S_lo & B_lo & W_lo).
        assert (Eh : high_node s1 f = high_node s f).
        { unfold high_node. destruct Vf as (HR & _). apply Rep_nd_inv in HR. destruct HR as (_ & l & h & Hc & _). rewrite Hc, (E1 _ _ Hc). reflexivity. }
        rewrite Eh in H2.
        destruct (IH _ _ _ _ _ _ _ _ lb HT1 HM1 (V_ext _ _ _ _ E1 Vh) Hsuf Hasc' H2) as (HT2 & E2 & K2 & HM2 & t_hi & V_hi & S_hi & B_hi & W_hi).
        destruct (mk_node_ok _ _ _ _ _ _ _ _ HT2 Hmk Hv0 (V_ext _ _ _ _ E2 V_lo) V_hi (B_lo _ Al) (B_hi _ Ah))
          as (HT3 & E3 & K3 & tr & Vr & Sr & Br & Wr).
        apply Hwrap. exists tr. splits; eauto using sext_trans, QMInv_ext.
        * intro k. now rewrite K3, K2, K1.
        * intro e. rewrite Sr, S_hi, S_lo, Sf. unfold override at 3.
          rewrite (asc_cube_vget cube vi vi (conj Hvu Hrest) (N.le_refl vi)). reflexivity.
        * intros lb0 (? & ? & ?); apply Br; assumption.
        * intros vs (? & ? & ?); apply Wr; auto.
  Qed.
  Print Assumptions ccube_ok.
End Cof2.
