From Coq Require Import NArith Bool Lia List.
Require Import Canon SemTk BddBase BddIte.
Import ListNotations.
Local Open Scope N_scope.

Section S.
  Context {SO : StoreOps} {OK : StoreOK}.

  (* ================= constrain ================= *)
  Definition CPost (s s' : st) (r f g : ref) (tf tg : tree) :=
    Inv s' /\ CInv s' /\ sext s s' /\
    exists tr, V s' r tr /\ (forall lb, above lb tf -> above lb tg -> above lb tr) /\
      (forall vs x, asc 0 vs -> tvars_in vs tf -> tvars_in vs tg ->
          rsem r tr x = constrain_spec vs (rsem f tf) (rsem g tg) x).

  Lemma CPost_ret s f g tf tg r tr :
    Inv s -> CInv s -> V s r tr -> (forall lb, above lb tf -> above lb tg -> above lb tr) ->
    (forall vs x, asc 0 vs -> tvars_in vs tf -> tvars_in vs tg -> rsem r tr x = constrain_spec vs (rsem f tf) (rsem g tg) x) ->
    CPost s s r f g tf tg.
  Proof. intros. unfold CPost. splits; auto using sext_refl. exists tr; splits; auto. Qed.

  Lemma constrain_ok : forall fuel s f g s' r tf tg,
    Inv s -> CInv s -> constrain fuel s f g = Some (s', r) -> V s f tf -> V s g tg -> CPost s s' r f g tf tg.
  Proof.
    induction fuel as [|fuel IH]; intros s f g s' r tf tg HT HC Hc Vf Vg; [discriminate|].
    cbn [constrain] in Hc.
    destruct (is_zero g) eqn:C1.
    { apply is_zero_true in C1; subst g. injection Hc as <- <-. unify_trees.
      apply (CPost_ret s f zero tf Leaf zero Leaf HT HC (V_zero s)); [cbn; auto|].
      intros vs x _ _ _. rewrite cs_unsat; [reflexivity|]. apply unsat_true; [apply rsem_ext|]. reflexivity. }
    destruct (is_one g) eqn:C2.
    { apply is_one_true in C2; subst g. injection Hc as <- <-. unify_trees.
      apply (CPost_ret s f one tf Leaf f tf HT HC Vf); [auto|].
      intros vs x Hasc _ _. unfold constrain_spec.
      assert (U : unsat vs (rsem one Leaf) x = false).
      { apply unsat_false; [apply rsem_ext|]. exists x. split; reflexivity. }
      rewrite U. apply rsem_ext. intro w. symmetry. apply (proj_fix vs (rsem one Leaf) x (rsem_ext _ _)). reflexivity. }
    destruct (is_term f) eqn:C3.
    { injection Hc as <- <-.
      assert (Ef : idx f = 1) by (unfold is_term in C3; rewrite term_idx in C3; now apply N.eqb_eq).
      pose proof (V_term _ _ _ Ef Vf) as ->.
      assert (Gnz : g <> zero) by (intros ->; discriminate).
      apply (CPost_ret s f g Leaf tg f Leaf HT HC Vf); [auto|].
      intros vs x Hasc _ Tg. unfold constrain_spec. rewrite (sat_of_nonzero s g tg vs x HT Vg Tg Gnz). reflexivity. }
    destruct (ref_eqb f g) eqn:C4.
    { apply ref_eqb_true in C4; subst g. injection Hc as <- <-. unify_trees.
      assert (Fnz : f <> zero) by (intros ->; discriminate).
      match goal with Hv : V s f ?t |- _ =>
        apply (CPost_ret s f f t t one Leaf HT HC (V_one s)); [cbn; auto|];
        intros vs x Hasc Tf _; unfold constrain_spec; rewrite (sat_of_nonzero s f t vs x HT Hv Tf Fnz);
        rewrite (proj_in vs (rsem f t) x (rsem_ext _ _) (asc_NoDup _ _ Hasc) (sat_of_nonzero s f t vs x HT Hv Tf Fnz)); reflexivity
      end. }
    destruct (ref_eqb f (rneg g)) eqn:C5.
    { apply ref_eqb_true in C5; subst f. injection Hc as <- <-. unify_trees.
      assert (Gnz : g <> zero) by (intros ->; discriminate).
      match goal with Hv : V s g ?t |- _ =>
        apply (CPost_ret s (rneg g) g t t zero Leaf HT HC (V_zero s)); [cbn; auto|];
        intros vs x Hasc _ Tg; unfold constrain_spec; rewrite (sat_of_nonzero s g t vs x HT Hv Tg Gnz);
        rewrite rsem_neg; rewrite (proj_in vs (rsem g t) x (rsem_ext _ _) (asc_NoDup _ _ Hasc) (sat_of_nonzero s g t vs x HT Hv Tg Gnz)); reflexivity
      end. }
    destruct (cget s (KConstrain f g)) as [rc|] eqn:Hcache.
    { injection Hc as <- <-. destruct (HC _ _ Hcache) as (tf' & tg' & tr & Vf' & Vg' & Vr & Hb & Hs).
      unify_trees. apply (CPost_ret s f g tf tg rc tr HT HC Vr Hb Hs). }
    (* recursive cases *)
    assert (Hfnt : idx f <> 1) by (rewrite <- N.eqb_neq, <- term_idx; exact C3).
    assert (Hgnt : idx g <> 1) by (rewrite <- N.eqb_neq, <- term_idx, C1, C2; reflexivity).
    destruct (top_cases _ _ _ HT Vf) as [(_ & _ & E)|(vi & lni & tli & thi & Etf & Hti & Hvi & _)]; [contradiction|].
    destruct (top_cases _ _ _ HT Vg) as [(_ & _ & E)|(vj & lnj & tlj & thj & Etg & Htj & Hvj & _)]; [contradiction|].
    set (v := N.min (top s f) (top s g)) in *.
    assert (Hv : 0 < v /\ v <= top s f /\ v <= top s g /\ (v = vi \/ v = vj)) by (subst v; rewrite Hti, Htj; lia).
    destruct Hv as (Hv0 & Hvf & Hvg & Hvroot).
    destruct (top_cofactors s f v) as [f0 f1] eqn:Tf.
    destruct (top_cofactors s g v) as [g0 g1] eqn:Tg.
    destruct (tc_ok s f v tf HT Vf (or_intror Hvf) _ _ Tf) as (tf0 & tf1 & Vf0 & Vf1 & Af0 & Af1 & Sf & Bf & Wf & Ef & _).
    destruct (tc_ok s g v tg HT Vg (or_intror Hvg) _ _ Tg) as (tg0 & tg1 & Vg0 & Vg1 & Ag0 & Ag1 & Sg & Bg & Wg & Eg & _).
    (* semantic step shared by all branches *)
    assert (Hstep : forall vs x, asc 0 vs -> tvars_in vs tf -> tvars_in vs tg ->
       exists post, asc 0 post /\
         (forall t, tvars_in vs t -> above v t -> tvars_in post t) /\
         constrain_spec vs (rsem f tf) (rsem g tg) x =
           if unsat post (rsem g1 tg1) x then constrain_spec post (rsem f0 tf0) (rsem g0 tg0) x
           else if unsat post (rsem g0 tg0) x then constrain_spec post (rsem f1 tf1) (rsem g1 tg1) x
           else if x v then constrain_spec post (rsem f1 tf1) (rsem g1 tg1) x
           else constrain_spec post (rsem f0 tf0) (rsem g0 tg0) x).
    { intros vs x Hasc Tf' Tg'.
      assert (Hin : In v vs).
      { destruct Hvroot as [->| ->]; [subst tf; destruct Tf' as [H _]|subst tg; destruct Tg' as [H _]]; exact H. }
      destruct (cs_at vs v Hasc Hin) as (post & Hp & Hsub & Heq).
      exists post. splits.
      - eapply asc_weaken; [|exact Hp]. lia.
      - intros t Ht At. eapply tvars_in_post; eauto.
      - apply Heq; auto using rsem_ext.
        + intros w Hw. split; apply rsem_indep with (v := w); try lia.
          * subst tf. apply ordered_root_above; [apply Vf|]. rewrite <- Hti. lia.
          * subst tg. apply ordered_root_above; [apply Vg|]. rewrite <- Htj. lia.
        + eapply rsem_indep; eauto; lia.
        + eapply rsem_indep; eauto; lia.
        + eapply rsem_indep; eauto; lia.
        + eapply rsem_indep; eauto; lia. }
    assert (Hbnd : forall lb, above lb tf -> above lb tg -> lb < v).
    { intros lb A1 A2. destruct Hvroot as [->| ->]; [subst tf; now destruct A1|subst tg; now destruct A2]. }
    assert (Hz : forall r0 t0 post x, V s r0 t0 -> tvars_in post t0 ->
               unsat post (rsem r0 t0) x = is_zero r0).
    { intros r0 t0 post x V0 T0. destruct (is_zero r0) eqn:Z.
      - apply is_zero_true in Z. subst r0. apply (unsat_zero s zero t0 post x HT V0 T0). reflexivity.
      - apply (sat_of_nonzero s r0 t0 post x HT V0 T0). intros ->. discriminate. }
    destruct (is_zero g1) eqn:Z1.
    { (* g1 = 0: sibling substitution *)
      destruct (IH _ _ _ _ _ _ _ HT HC Hc Vf0 Vg0) as (HT' & HC' & E' & tr & Vr & Br & Sr).
      unfold CPost. splits; auto. exists tr. splits; auto.
      - intros lb A1 A2. apply Br; [apply (Bf lb A1)|apply (Bg lb A2)].
      - intros vs x Hasc Tf' Tg'. destruct (Hstep vs x Hasc Tf' Tg') as (post & Hp & Hsub & ->).
        destruct (Wf vs Tf') as [Wf0 Wf1]. destruct (Wg vs Tg') as [Wg0 Wg1].
        rewrite (Hz g1 tg1 post x Vg1) by (apply Hsub; assumption). rewrite Z1.
        apply Sr; auto. }
    destruct (is_zero g0) eqn:Z0.
    { destruct (IH _ _ _ _ _ _ _ HT HC Hc Vf1 Vg1) as (HT' & HC' & E' & tr & Vr & Br & Sr).
      unfold CPost. splits; auto. exists tr. splits; auto.
      - intros lb A1 A2. apply Br; [apply (Bf lb A1)|apply (Bg lb A2)].
      - intros vs x Hasc Tf' Tg'. destruct (Hstep vs x Hasc Tf' Tg') as (post & Hp & Hsub & ->).
        destruct (Wf vs Tf') as [Wf0 Wf1]. destruct (Wg vs Tg') as [Wg0 Wg1].
        rewrite (Hz g1 tg1 post x Vg1) by (apply Hsub; assumption). rewrite Z1.
        rewrite (Hz g0 tg0 post x Vg0) by (apply Hsub; assumption). rewrite Z0.
        apply Sr; auto. }
    (* both cofactors of g satisfiable: build a node *)
    assert (Hnode : forall fa fb tfa tfb s1 s2 lo hi s3 r3,
        V s fa tfa -> V s fb tfb -> above v tfa -> above v tfb ->
        (forall lb, above lb tf -> above lb tfa /\ above lb tfb) ->
        (forall vs, tvars_in vs tf -> tvars_in vs tfa /\ tvars_in vs tfb) ->
        (forall e, rsem f tf e = if e v then rsem fb tfb e else rsem fa tfa e) ->
        constrain fuel s fa g0 = Some (s1, lo) -> constrain fuel s1 fb g1 = Some (s2, hi) ->
        mk_node s2 v lo hi = Some (s3, r3) ->
        Inv s3 /\ CInv s3 /\ sext s s3 /\ exists tr, V s3 r3 tr /\ (forall lb, above lb tf -> above lb tg -> above lb tr) /\
          (forall vs x, asc 0 vs -> tvars_in vs tf -> tvars_in vs tg ->
              rsem r3 tr x = constrain_spec vs (rsem f tf) (rsem g tg) x)).
    { intros fa fb tfa tfb s1 s2 lo hi s3 r3 Va Vb Aa Ab Ba Wa Sa H1 H2 Hmk.
      destruct (IH _ _ _ _ _ _ _ HT HC H1 Va Vg0) as (HT1 & HC1 & E1 & t_lo & V_lo & B_lo & S_lo).
      destruct (IH _ _ _ _ _ _ _ HT1 HC1 H2 (V_ext _ _ _ _ E1 Vb) (V_ext _ _ _ _ E1 Vg1)) as (HT2 & HC2 & E2 & t_hi & V_hi & B_hi & S_hi).
      destruct (mk_node_ok _ _ _ _ _ _ _ _ HT2 Hmk Hv0 (V_ext _ _ _ _ E2 V_lo) V_hi (B_lo _ Aa Ag0) (B_hi _ Ab Ag1))
        as (HT3 & E3 & Hk3 & tr & Vr & Sr & Br & _).
      splits; auto.
      - eapply CInv_ext; eauto.
      - eauto using sext_trans.
      - exists tr. splits; auto.
        intros vs x Hasc Tf' Tg'.
        (* same step as Hstep, but with the cofactor pair (fa, fb) of f *)
        assert (Hin : In v vs).
        { destruct Hvroot as [->| ->]; [subst tf; destruct Tf' as [H _]|subst tg; destruct Tg' as [H _]]; exact H. }
        destruct (cs_at vs v Hasc Hin) as (post & Hp & Hsub & Heq).
        destruct (Wa vs Tf') as [Wa0 Wa1]. destruct (Wg vs Tg') as [Wg0 Wg1].
        assert (Hp0 : asc 0 post) by (eapply asc_weaken; [|exact Hp]; lia).
        assert (Hpost : forall t, tvars_in vs t -> above v t -> tvars_in post t) by (intros; eapply tvars_in_post; eauto).
        rewrite (Heq (rsem f tf) (rsem g tg) (rsem fa tfa) (rsem fb tfb) (rsem g0 tg0) (rsem g1 tg1) x); auto using rsem_ext.
        + rewrite (Hz g1 tg1 post x Vg1), Z1 by auto. rewrite (Hz g0 tg0 post x Vg0), Z0 by auto.
          rewrite Sr. destruct (x v); [apply S_hi|apply S_lo]; auto.
        + intros w Hw. split; apply rsem_indep with (v := w); try lia.
          * subst tf. apply ordered_root_above; [apply Vf|]. rewrite <- Hti. lia.
          * subst tg. apply ordered_root_above; [apply Vg|]. rewrite <- Htj. lia.
        + eapply rsem_indep; eauto; lia.
        + eapply rsem_indep; eauto; lia.
        + eapply rsem_indep; eauto; lia.
        + eapply rsem_indep; eauto; lia. }
    destruct (ref_eqb f0 f1) eqn:Ceq.
    { (* f does not depend on v *)
      apply ref_eqb_true in Ceq. destruct (Ef Ceq) as (E0 & Et0 & Et1 & Atf). subst f1 f0 tf0 tf1.
      destruct (constrain fuel s f g0) as [[s1 lo]|] eqn:H1; [|discriminate].
      destruct (constrain fuel s1 f g1) as [[s2 hi]|] eqn:H2; [|discriminate].
      assert (Sff : forall e : env, rsem f tf e = if e v then rsem f tf e else rsem f tf e) by (intro e; now destruct (e v)).
      destruct (Hnode f f tf tf s1 s2 lo hi s' r Vf Vf Atf Atf (fun lb A => conj A A) (fun vs T => conj T T) Sff H1 H2 Hc)
        as (HT3 & HC3 & E3 & tr & Vr & Br & Sr).
      unfold CPost. splits; auto. exists tr. splits; auto. }
    destruct (constrain fuel s f0 g0) as [[s1 lo]|] eqn:H1; [|discriminate].
    destruct (constrain fuel s1 f1 g1) as [[s2 hi]|] eqn:H2; [|discriminate].
    destruct (mk_node s2 v lo hi) as [[s3 r3]|] eqn:Hmk; [|discriminate].
    injection Hc as <- <-.
    destruct (Hnode f0 f1 tf0 tf1 s1 s2 lo hi s3 r3 Vf0 Vf1 Af0 Af1 Bf Wf Sf H1 H2 Hmk) as (HT3 & HC3 & E3 & tr & Vr & Br & Sr).
    assert (HE : EntryOK s3 (KConstrain f g) r3).
    { cbn. exists tf, tg, tr. splits; eauto using V_ext. }
    destruct (CInv_cput s3 (KConstrain f g) r3 HT3 HC3 HE) as (HC4 & E4 & HT4).
    unfold CPost. splits; eauto using sext_trans. exists tr. splits; eauto using V_ext.
  Qed.

  (* ================= restrict (C11) ================= *)
  Lemma differ_of_neq s f0 f1 t0 t1 post e : Inv s -> V s f0 t0 -> V s f1 t1 ->
    tvars_in post t0 -> tvars_in post t1 -> f0 <> f1 -> differ post (rsem f0 t0) (rsem f1 t1) e = true.
  Proof.
    intros HT V0 V1 T0 T1 Hne. destruct (differ post (rsem f0 t0) (rsem f1 t1) e) eqn:D; [reflexivity|exfalso].
    rewrite differ_false in D by apply rsem_ext. apply Hne. eapply canon_store; eauto. intro e'.
    set (a := fun w => if in_dec N.eq_dec w post then e' w else e w).
    assert (Ha : forall w, In w post -> a w = e' w) by (intros w Hw; unfold a; destruct (in_dec N.eq_dec w post); [reflexivity|contradiction]).
    unfold rsem. rewrite <- (tsem_agree post t0 T0 a e' Ha), <- (tsem_agree post t1 T1 a e' Ha).
    apply D. intros w Hw. unfold a. destruct (in_dec N.eq_dec w post); [contradiction|reflexivity].
  Qed.
  Lemma differ_same post (F : bfun) e : ext F -> differ post F F e = false.
  Proof. intro HF. apply differ_false; auto. Qed.

  Definition RPost (s s' : st) (r f g : ref) (tf tg : tree) :=
    Inv s' /\ CInv s' /\ sext s s' /\
    exists tr, V s' r tr /\ (forall lb, above lb tf -> above lb tr) /\ (forall vs, tvars_in vs tf -> tvars_in vs tr) /\
      (forall vs x, asc 0 vs -> tvars_in vs tf -> tvars_in vs tg ->
          rsem r tr x = restrict_spec vs (rsem f tf) (rsem g tg) x).
  Lemma RPost_ret s f g tf tg r tr :
    Inv s -> CInv s -> V s r tr -> (forall lb, above lb tf -> above lb tr) -> (forall vs, tvars_in vs tf -> tvars_in vs tr) ->
    (forall vs x, asc 0 vs -> tvars_in vs tf -> tvars_in vs tg -> rsem r tr x = restrict_spec vs (rsem f tf) (rsem g tg) x) ->
    RPost s s r f g tf tg.
  Proof. intros. unfold RPost. splits; auto using sext_refl. exists tr; splits; auto. Qed.

  Lemma restrict_ok : forall fuel s f g s' r tf tg,
    Inv s -> CInv s -> restrict fuel s f g = Some (s', r) -> V s f tf -> V s g tg -> RPost s s' r f g tf tg.
  Proof.
    induction fuel as [|fuel IH]; intros s f g s' r tf tg HT HC Hc Vf Vg; [discriminate|].
    cbn [restrict] in Hc.
    destruct (is_zero g) eqn:C1.
    { apply is_zero_true in C1; subst g. injection Hc as <- <-. unify_trees.
      apply (RPost_ret s f zero tf Leaf zero Leaf HT HC (V_zero s)); [cbn; auto|cbn; auto|].
      intros vs x _ _ _. unfold restrict_spec.
      assert (U : unsat vs (rsem zero Leaf) x = true) by (apply unsat_true; [apply rsem_ext|reflexivity]).
      now rewrite U. }
    assert (Gnz : g <> zero) by (intros ->; discriminate).
    destruct (is_one g || is_term f) eqn:C2.
    { injection Hc as <- <-. apply (RPost_ret s f g tf tg f tf HT HC Vf); auto.
      intros vs x Hasc Tf Tg. unfold restrict_spec. rewrite (sat_of_nonzero s g tg vs x HT Vg Tg Gnz).
      apply orb_prop in C2. destruct C2 as [C2|C2].
      - apply is_one_true in C2. subst g. unify_trees. symmetry. apply rspec_care; auto using rsem_ext.
      - assert (Ef : idx f = 1) by (unfold is_term in C2; rewrite term_idx in C2; now apply N.eqb_eq).
        pose proof (V_term _ _ _ Ef Vf) as ->. symmetry. apply rspec_const. intro a. reflexivity. }
    apply orb_false_elim in C2. destruct C2 as [C2 C3].
    destruct (ref_eqb f g) eqn:C4.
    { apply ref_eqb_true in C4; subst g. injection Hc as <- <-. unify_trees.
      match goal with Hv : V s f ?t |- _ =>
        apply (RPost_ret s f f t t one Leaf HT HC (V_one s)); [cbn; auto|cbn; auto|];
        intros vs x Hasc Tf _; unfold restrict_spec; rewrite (sat_of_nonzero s f t vs x HT Hv Tf Gnz);
        symmetry; apply rspec_imp; auto using rsem_ext; [apply (sat_of_nonzero s f t vs x HT Hv Tf Gnz)|eapply asc_NoDup; eauto]
      end. }
    destruct (ref_eqb f (rneg g)) eqn:C5.
    { apply ref_eqb_true in C5; subst f. injection Hc as <- <-. unify_trees.
      match goal with Hv : V s g ?t |- _ =>
        apply (RPost_ret s (rneg g) g t t zero Leaf HT HC (V_zero s)); [cbn; auto|cbn; auto|];
        intros vs x Hasc _ Tg; unfold restrict_spec; rewrite (sat_of_nonzero s g t vs x HT Hv Tg Gnz);
        rewrite (rspec_congr vs (rsem (rneg g) t) (fun a => negb (rsem g t a)) (rsem g t) (rsem g t) x);
          auto using rsem_ext; [|intros a b E; now rewrite (rsem_ext g t a b E)|intro a; apply rsem_neg];
        rewrite rspec_neg; rewrite rspec_imp; auto using rsem_ext; [apply (sat_of_nonzero s g t vs x HT Hv Tg Gnz)|eapply asc_NoDup; eauto]
      end. }
    destruct (cget s (KRestrict f g)) as [rc|] eqn:Hcache.
    { injection Hc as <- <-. destruct (HC _ _ Hcache) as (tf' & tg' & tr & Vf' & Vg' & Vr & Hb & Hw & Hs).
      unify_trees. apply (RPost_ret s f g tf tg rc tr HT HC Vr Hb Hw Hs). }
    (* recursive cases *)
    assert (Hfnt : idx f <> 1) by (rewrite <- N.eqb_neq, <- term_idx; exact C3).
    assert (Hgnt : idx g <> 1) by (rewrite <- N.eqb_neq, <- term_idx, C1, C2; reflexivity).
    destruct (top_cases _ _ _ HT Vf) as [(_ & _ & E)|(vi & lni & tli & thi & Etf & Hti & Hvi & _)]; [contradiction|].
    destruct (top_cases _ _ _ HT Vg) as [(_ & _ & E)|(vj & lnj & tlj & thj & Etg & Htj & Hvj & _)]; [contradiction|].
    set (v := N.min (top s f) (top s g)) in *.
    assert (Hv : 0 < v /\ v <= top s f /\ v <= top s g /\ (v = vi \/ v = vj)) by (subst v; rewrite Hti, Htj; lia).
    destruct Hv as (Hv0 & Hvf & Hvg & Hvroot).
    destruct (top_cofactors s f v) as [f0 f1] eqn:Tf.
    destruct (top_cofactors s g v) as [g0 g1] eqn:Tg.
    destruct (tc_ok s f v tf HT Vf (or_intror Hvf) _ _ Tf) as (tf0 & tf1 & Vf0 & Vf1 & Af0 & Af1 & Sf & Bf & Wf & Ef & Lf & _).
    destruct (tc_ok s g v tg HT Vg (or_intror Hvg) _ _ Tg) as (tg0 & tg1 & Vg0 & Vg1 & Ag0 & Ag1 & Sg & Bg & Wg & Eg & Lg & _).
    assert (Hstep : forall vs x, asc 0 vs -> tvars_in vs tf -> tvars_in vs tg ->
       exists post, asc 0 post /\ In v vs /\
         (forall t, tvars_in vs t -> above v t -> tvars_in post t) /\
         restrict_spec vs (rsem f tf) (rsem g tg) x =
           if unsat post (rsem g1 tg1) x then restrict_spec post (rsem f0 tf0) (rsem g0 tg0) x
           else if unsat post (rsem g0 tg0) x then restrict_spec post (rsem f1 tf1) (rsem g1 tg1) x
           else if differ post (rsem f0 tf0) (rsem f1 tf1) x
                then (if x v then restrict_spec post (rsem f1 tf1) (rsem g1 tg1) x else restrict_spec post (rsem f0 tf0) (rsem g0 tg0) x)
                else restrict_spec post (rsem f0 tf0) (bor (rsem g0 tg0) (rsem g1 tg1)) x).
    { intros vs x Hasc Tf' Tg'.
      assert (Hin : In v vs).
      { destruct Hvroot as [->| ->]; [subst tf; destruct Tf' as [H _]|subst tg; destruct Tg' as [H _]]; exact H. }
      destruct (rs_at vs v Hasc Hin) as (post & Hp & Hsub & Heq).
      exists post. splits; auto.
      - eapply asc_weaken; [|exact Hp]. lia.
      - intros t Ht At. eapply tvars_in_post; eauto.
      - apply Heq; auto using rsem_ext.
        + intros w Hw. split; apply rsem_indep with (v := w); try lia.
          * subst tf. apply ordered_root_above; [apply Vf|]. rewrite <- Hti. lia.
          * subst tg. apply ordered_root_above; [apply Vg|]. rewrite <- Htj. lia.
        + eapply rsem_indep; eauto; lia.
        + eapply rsem_indep; eauto; lia.
        + eapply rsem_indep; eauto; lia.
        + eapply rsem_indep; eauto; lia. }
    assert (Hz : forall r0 t0 post x, V s r0 t0 -> tvars_in post t0 -> unsat post (rsem r0 t0) x = is_zero r0).
    { intros r0 t0 post x V0 T0. destruct (is_zero r0) eqn:Z.
      - apply is_zero_true in Z. subst r0. apply (unsat_zero s zero t0 post x HT V0 T0). reflexivity.
      - apply (sat_of_nonzero s r0 t0 post x HT V0 T0). intros ->. discriminate. }
    destruct (is_zero g1) eqn:Z1.
    { destruct (IH _ _ _ _ _ _ _ HT HC Hc Vf0 Vg0) as (HT' & HC' & E' & tr & Vr & Br & Wr & Sr).
      unfold RPost. splits; auto. exists tr. splits; auto.
      - intros lb A1. apply Br. apply (Bf lb A1).
      - intros vs A1. apply Wr. apply (Wf vs A1).
      - intros vs x Hasc Tf' Tg'. destruct (Hstep vs x Hasc Tf' Tg') as (post & Hp & _ & Hsub & ->).
        destruct (Wf vs Tf') as [Wf0 Wf1]. destruct (Wg vs Tg') as [Wg0 Wg1].
        rewrite (Hz g1 tg1 post x Vg1) by (apply Hsub; assumption). rewrite Z1. apply Sr; auto. }
    destruct (is_zero g0) eqn:Z0.
    { destruct (IH _ _ _ _ _ _ _ HT HC Hc Vf1 Vg1) as (HT' & HC' & E' & tr & Vr & Br & Wr & Sr).
      unfold RPost. splits; auto. exists tr. splits; auto.
      - intros lb A1. apply Br. apply (Bf lb A1).
      - intros vs A1. apply Wr. apply (Wf vs A1).
      - intros vs x Hasc Tf' Tg'. destruct (Hstep vs x Hasc Tf' Tg') as (post & Hp & _ & Hsub & ->).
        destruct (Wf vs Tf') as [Wf0 Wf1]. destruct (Wg vs Tg') as [Wg0 Wg1].
        rewrite (Hz g1 tg1 post x Vg1) by (apply Hsub; assumption). rewrite Z1.
        rewrite (Hz g0 tg0 post x Vg0) by (apply Hsub; assumption). rewrite Z0. apply Sr; auto. }
    destruct (N.eqb_spec v (top s f)) as [Evi|Nvi].
    - (* v is f's top variable: build a node *)
      destruct (restrict fuel s f0 g0) as [[s1 lo]|] eqn:H1; [|discriminate].
      destruct (restrict fuel s1 f1 g1) as [[s2 hi]|] eqn:H2; [|discriminate].
      destruct (mk_node s2 v lo hi) as [[s3 r3]|] eqn:Hmk; [|discriminate].
      injection Hc as <- <-.
      destruct (IH _ _ _ _ _ _ _ HT HC H1 Vf0 Vg0) as (HT1 & HC1 & E1 & t_lo & V_lo & B_lo & W_lo & S_lo).
      destruct (IH _ _ _ _ _ _ _ HT1 HC1 H2 (V_ext _ _ _ _ E1 Vf1) (V_ext _ _ _ _ E1 Vg1)) as (HT2 & HC2 & E2 & t_hi & V_hi & B_hi & W_hi & S_hi).
      destruct (mk_node_ok _ _ _ _ _ _ _ _ HT2 Hmk Hv0 (V_ext _ _ _ _ E2 V_lo) V_hi (B_lo _ Af0) (B_hi _ Af1))
        as (HT3 & E3 & Hk3 & tr & Vr & Sr & Br & Wr).
      assert (Hne : f0 <> f1).
      { intro E. destruct (Ef E) as (_ & _ & _ & A). subst tf. destruct A as [A _]. rewrite Evi, Hti in A. lia. }
      assert (Hroot : forall lb, above lb tf -> lb < v) by (intros lb A; subst tf; destruct A as [A _]; rewrite Evi, Hti; exact A).
      assert (Hrootv : forall vs, tvars_in vs tf -> In v vs) by (intros vs A; subst tf; destruct A as [A _]; rewrite Evi, Hti; exact A).
      assert (HC3 : CInv s3) by (eapply CInv_ext; eauto).
      assert (E03 : sext s s3) by eauto using sext_trans.
      assert (Hsem : forall vs x, asc 0 vs -> tvars_in vs tf -> tvars_in vs tg ->
                rsem r3 tr x = restrict_spec vs (rsem f tf) (rsem g tg) x).
      { intros vs x Hasc Tf' Tg'. destruct (Hstep vs x Hasc Tf' Tg') as (post & Hp & _ & Hsub & ->).
        destruct (Wf vs Tf') as [Wf0 Wf1]. destruct (Wg vs Tg') as [Wg0 Wg1].
        rewrite (Hz g1 tg1 post x Vg1), Z1 by auto. rewrite (Hz g0 tg0 post x Vg0), Z0 by auto.
        rewrite (differ_of_neq s f0 f1 tf0 tf1 post x HT Vf0 Vf1) by auto.
        rewrite Sr. destruct (x v); [apply S_hi|apply S_lo]; auto. }
      assert (HE : EntryOK s3 (KRestrict f g) r3).
      { cbn. exists tf, tg, tr. splits; eauto using V_ext.
        intros vs A. destruct (Wf vs A). apply Wr; auto. }
      destruct (CInv_cput s3 (KRestrict f g) r3 HT3 HC3 HE) as (HC4 & E4 & HT4).
      unfold RPost. splits; eauto using sext_trans. exists tr. splits; eauto using V_ext.
      intros vs A. destruct (Wf vs A). apply Wr; auto.
    - (* f does not depend on v: abstract v from the care set *)
      assert (Hlt : v < top s f) by lia.
      destruct (Lf (or_intror Hlt)) as (-> & -> & -> & ->).
      destruct (ite fuel s g1 one g0) as [[s1 gg]|] eqn:Hi; [|discriminate].
      destruct (restrict fuel s1 f gg) as [[s2 r2]|] eqn:H2; [|discriminate].
      injection Hc as <- <-.
      destruct (ite_ok _ _ _ _ _ _ _ _ _ _ HT HC Hi Vg1 (V_one s) Vg0) as (HT1 & HC1 & E1 & tgg & Vgg & Sgg & Bgg & Wgg).
      destruct (IH _ _ _ _ _ _ _ HT1 HC1 H2 (V_ext _ _ _ _ E1 Vf) Vgg) as (HT2 & HC2 & E2 & tr & Vr & Br & Wr & Sr).
      assert (Atf : above v tf) by (subst tf; apply ordered_root_above; [apply Vf|]; rewrite <- Hti; exact Hlt).
      assert (Agg : above v tgg) by (apply Bgg; cbn; auto).
      assert (Hsem : forall vs x, asc 0 vs -> tvars_in vs tf -> tvars_in vs tg ->
                rsem r2 tr x = restrict_spec vs (rsem f tf) (rsem g tg) x).
      { intros vs x Hasc Tf' Tg'. destruct (Hstep vs x Hasc Tf' Tg') as (post & Hp & _ & Hsub & ->).
        destruct (Wg vs Tg') as [Wg0 Wg1].
        rewrite (Hz g1 tg1 post x Vg1), Z1 by auto. rewrite (Hz g0 tg0 post x Vg0), Z0 by auto.
        rewrite differ_same by apply rsem_ext.
        rewrite (Sr post x Hp); [|auto|apply Hsub; [apply Wgg; cbn; auto|exact Agg]].
        apply rs_congr; auto using rsem_ext, ext_bor.
        intro a. rewrite Sgg. unfold bor. rewrite rsem_one. now destruct (rsem g1 tg1 a), (rsem g0 tg0 a). }
      assert (E02 : sext s s2) by eauto using sext_trans.
      assert (HE : EntryOK s2 (KRestrict f g) r2).
      { cbn. exists tf, tg, tr. splits; eauto using V_ext. }
      destruct (CInv_cput s2 (KRestrict f g) r2 HT2 HC2 HE) as (HC4 & E4 & HT4).
      unfold RPost. splits; eauto using sext_trans. exists tr. splits; eauto using V_ext.
  Qed.
  Print Assumptions restrict_ok.
End S.
