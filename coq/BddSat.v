From Coq Require Import NArith Bool Lia List FinFun.
Require Import Canon SemTk CountTk BddBase BddIte.
Import ListNotations.
Local Open Scope N_scope.

(* per-call memo tables: HashMap (exact) and the direct-mapped Cache (lossy) both satisfy this interface *)
Class Memo (K V : Type) := {
  memo : Type; mempty : memo; mget : memo -> K -> option V; mput : memo -> K -> V -> memo;
  mget_empty : forall k, mget mempty k = None;
  mget_put : forall m k v k' v', mget (mput m k v) k' = Some v' -> (k' = k /\ v' = v) \/ mget m k' = Some v' }.

Section Sat.
  Context {SO : StoreOps} {OK : StoreOK} {M : Memo ref N}.

  (* src/sat.rs _sat_count *)
  Fixpoint satc (fuel : nat) (s : st) (m : memo) (r : ref) (max : N) : option (memo * N) :=
    match fuel with O => None | S fuel =>
    if is_zero r then Some (m, 0) else
    if is_one r then Some (m, max) else
    match mget m r with
    | Some c => Some (m, c)
    | None =>
      match cell s (idx r) with
      | None => None
      | Some n =>
        match satc fuel s m (lo n) max with None => None | Some (m1, cl) =>
        match satc fuel s m1 (hi n) max with None => None | Some (m2, ch) =>
          let c := N.shiftr (cl + ch) 1 in
          let c := if neg r then max - c else c in
          Some (mput m2 r c, c)
        end end
      end
    end
    end.
  Definition sat_count (fuel : nat) (s : st) (r : ref) (nvars : N) : option N :=
    match satc fuel s mempty r (2 ^ nvars) with Some (_, c) => Some c | None => None end.

  Lemma V_children s r v ln tl th : V s r (Nd v ln tl th) ->
    exists l h, cell s (idx r) = Some (Node v l h) /\ ln = neg l /\ neg h = false /\
      V s l tl /\ V s h th /\ above v tl /\ above v th /\ 0 < v.
  Proof.
    intros (HR & (Al & Ah & Ol & Oh) & (Hv & Zl & Zh) & (_ & Dl & Dh)).
    apply Rep_nd_inv in HR. destruct HR as (_ & l & h & Hc & Hreg & -> & Rl & Rh).
    exists l, h. splits; auto; unfold V; splits; auto.
  Qed.

  Definition MInv (s : st) (vs : list N) (m : memo) : Prop :=
    forall k c, mget m k = Some c -> exists t, V s k t /\ tvars_in vs t /\ c = count vs (rsem k t).

  Lemma satc_ok vs : NoDup vs -> forall fuel s m r t m' c,
    Inv s -> MInv s vs m -> V s r t -> tvars_in vs t ->
    satc fuel s m r (2 ^ N.of_nat (length vs)) = Some (m', c) ->
    MInv s vs m' /\ c = count vs (rsem r t).
  Proof.
    intros Hnd. induction fuel as [|fuel IH]; intros s m r t m' c HT HM HV Tv H; [discriminate|].
    cbn [satc] in H.
    destruct (is_zero r) eqn:Z.
    { apply is_zero_true in Z. subst r. injection H as <- <-. pose proof (V_term _ zero _ eq_refl HV) as ->.
      split; [exact HM|]. symmetry. unfold count, cnt.
      induction (assigns vs (fun _ => false)); cbn; auto. }
    destruct (is_one r) eqn:O.
    { apply is_one_true in O. subst r. injection H as <- <-. pose proof (V_term _ one _ eq_refl HV) as ->.
      split; [exact HM|]. symmetry. apply count_const_true. }
    destruct (mget m r) as [c0|] eqn:Hm.
    { injection H as <- <-. split; [exact HM|]. destruct (HM _ _ Hm) as (t0 & V0 & _ & ->). now rewrite (V_fun _ _ _ _ V0 HV). }
    assert (Hnt : idx r <> 1) by (rewrite <- N.eqb_neq, <- term_idx, O, Z; reflexivity).
    destruct t as [|v ln tl th]; [destruct (top_leaf _ _ HT HV); contradiction|].
    destruct (V_children _ _ _ _ _ _ HV) as (l & h & Hc & -> & Hreg & Vl & Vh & Al & Ah & Hv0).
    rewrite Hc in H. cbn [lo hi] in H. destruct Tv as (Hin & Tl & Th).
    destruct (satc fuel s m l _) as [[m1 cl]|] eqn:H1; [|discriminate].
    destruct (satc fuel s m1 h _) as [[m2 ch]|] eqn:H2; [|discriminate].
    injection H as <- <-.
    destruct (IH _ _ _ _ _ _ HT HM Vl Tl H1) as (HM1 & ->).
    destruct (IH _ _ _ _ _ _ HT HM1 Vh Th H2) as (HM2 & ->).
    set (Fp := fun e : env => if e v then rsem h th e else rsem l tl e).
    assert (Ep : count vs Fp = N.shiftr (count vs (rsem l tl) + count vs (rsem h th)) 1).
    { rewrite N.shiftr_div_pow2. change (2 ^ 1) with 2.
      apply (count_shannon vs Fp (rsem l tl) (rsem h th) v); auto using rsem_ext.
      - intros a b E. unfold Fp. now rewrite (E v), (rsem_ext h th a b E), (rsem_ext l tl a b E).
      - eapply rsem_indep; eauto; lia.
      - eapply rsem_indep; eauto; lia. }
    assert (Er : count vs (rsem r (Nd v (neg l) tl th)) =
                 if neg r then 2 ^ N.of_nat (length vs) - N.shiftr (count vs (rsem l tl) + count vs (rsem h th)) 1
                 else N.shiftr (count vs (rsem l tl) + count vs (rsem h th)) 1).
    { rewrite <- Ep. destruct (neg r) eqn:Nr.
      - rewrite <- count_neg. unfold count. f_equal. apply cnt_ext_on. intros a _.
        unfold Fp, rsem; cbn. rewrite Nr, Hreg. now destruct (a v), (neg l), (tsem tl a), (tsem th a).
      - unfold count. f_equal. apply cnt_ext_on. intros a _.
        unfold Fp, rsem; cbn. rewrite Nr, Hreg. now destruct (a v), (neg l), (tsem tl a), (tsem th a). }
    split; [|now rewrite Er].
    intros k c Hk. apply mget_put in Hk. destruct Hk as [[-> ->]|Hk]; [|apply HM2; exact Hk].
    exists (Nd v (neg l) tl th). splits; auto; try (cbn; now auto); now rewrite Er.
  Qed.

  Theorem sat_count_ok fuel s r t n c : Inv s -> V s r t -> tvars_in (map N.of_nat (List.seq 1%nat n)) t ->
    sat_count fuel s r (N.of_nat n) = Some c -> c = count (map N.of_nat (List.seq 1%nat n)) (rsem r t).
  Proof.
    intros HT HV Tv H. unfold sat_count in H.
    destruct (satc fuel s mempty r (2 ^ N.of_nat n)) as [[m c0]|] eqn:E; [|discriminate]. injection H as <-.
    assert (Hlen : length (map N.of_nat (List.seq 1%nat n)) = n) by (now rewrite map_length, seq_length).
    assert (Hnd : NoDup (map N.of_nat (List.seq 1%nat n))).
    { apply Injective_map_NoDup; [intros a b; apply Nat2N.inj|apply seq_NoDup]. }
    rewrite <- Hlen in E at 1.
    destruct (satc_ok _ Hnd _ _ _ _ _ _ _ HT (fun k c Hk => ltac:(rewrite mget_empty in Hk; discriminate)) HV Tv E) as [_ ->].
    reflexivity.
  Qed.
  Print Assumptions sat_count_ok.
End Sat.
