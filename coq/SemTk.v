From Coq Require Import NArith Bool List Lia.
Require Import Canon.
Import ListNotations.
Local Open Scope N_scope.

Ltac splits := repeat match goal with |- _ /\ _ => split end.
Definition bfun := env -> bool.
Definition eqe (a b : env) := forall w, a w = b w.
Definition ext (G : bfun) := forall a b, eqe a b -> G a = G b.
Definition cof (F : bfun) (v : N) (b : bool) : bfun := fun e => F (upd e v b).
Definition indep (F : bfun) (v : N) := forall e b, F (upd e v b) = F e.

Fixpoint assigns (vs : list N) (e : env) : list env :=
  match vs with [] => [e] | v :: vs' => assigns vs' (upd e v false) ++ assigns vs' (upd e v true) end.
Definition unsat (vs : list N) (G : bfun) (e : env) : bool := forallb (fun a => negb (G a)) (assigns vs e).

Fixpoint proj (vs : list N) (G : bfun) (x : env) : env :=
  match vs with
  | [] => x
  | v :: vs' => let b := if unsat vs' (cof G v (x v)) x then negb (x v) else x v in
               upd (proj vs' (cof G v b) x) v b
  end.
Definition constrain_spec (vs : list N) (F G : bfun) : bfun :=
  fun x => if unsat vs G x then false else F (proj vs G x).

Lemma upd_eq e v b : upd e v b v = b. Proof. unfold upd. now rewrite N.eqb_refl. Qed.
Lemma upd_neq e v b w : w <> v -> upd e v b w = e w.
Proof. unfold upd. intro H. apply N.eqb_neq in H. now rewrite H. Qed.
Lemma eqe_refl a : eqe a a. Proof. intro; reflexivity. Qed.
Lemma eqe_upd a b v c : eqe a b -> eqe (upd a v c) (upd b v c).
Proof. intros H w. unfold upd. destruct (N.eqb w v); auto. Qed.
Lemma ext_cof G v b : ext G -> ext (cof G v b).
Proof. intros H a c E. apply H. now apply eqe_upd. Qed.

Lemma assigns_out vs : forall e a, In a (assigns vs e) -> forall w, ~ In w vs -> a w = e w.
Proof.
  induction vs as [|v vs IH]; intros e a Hin w Hw; cbn in Hin.
  - destruct Hin as [<-|[]]. reflexivity.
  - apply in_app_or in Hin. destruct Hin as [Hin|Hin]; apply IH with (w := w) in Hin; try (intro; apply Hw; right; assumption);
      rewrite Hin; apply upd_neq; intro; subst; apply Hw; left; reflexivity.
Qed.
Lemma assigns_complete vs : forall e a', (forall w, ~ In w vs -> a' w = e w) -> exists a, In a (assigns vs e) /\ eqe a a'.
Proof.
  induction vs as [|v vs IH]; intros e a' H; cbn.
  - exists e. split; [left; reflexivity|]. intro w. symmetry. apply H. intros [].
  - destruct (IH (upd e v (a' v)) a') as (a & Hin & Ha).
    { intros w Hw. destruct (N.eq_dec w v) as [->|Hne]; [now rewrite upd_eq|]. rewrite upd_neq by assumption. apply H. intros [E|E]; [congruence|contradiction]. }
    exists a. split; [|exact Ha]. apply in_or_app. destruct (a' v); [right|left]; exact Hin.
Qed.

Lemma unsat_true vs G e : ext G -> (unsat vs G e = true <-> forall a, (forall w, ~ In w vs -> a w = e w) -> G a = false).
Proof.
  intro HG. unfold unsat. rewrite forallb_forall. split.
  - intros H a Ha. destruct (assigns_complete vs e a Ha) as (a0 & Hin & E). specialize (H a0 Hin).
    rewrite (HG a0 a E) in H. now destruct (G a).
  - intros H a Hin. rewrite H; [reflexivity|]. intros w Hw. eapply assigns_out; eauto.
Qed.
Lemma unsat_false vs G e : ext G -> (unsat vs G e = false <-> exists a, (forall w, ~ In w vs -> a w = e w) /\ G a = true).
Proof.
  intro HG. split.
  - intro H. unfold unsat in H. 
    assert (exists a, In a (assigns vs e) /\ G a = true) as (a & Hin & Ha).
    { induction (assigns vs e) as [|a l IH]; cbn in H; [discriminate|].
      destruct (G a) eqn:Ga; cbn in H; [exists a; split; [left; reflexivity|exact Ga]|].
      destruct (IH H) as (a0 & ? & ?). exists a0; split; [right; assumption|assumption]. }
    exists a. split; [|exact Ha]. intros w Hw. eapply assigns_out; eauto.
  - intros (a & Ha & Ga). destruct (unsat vs G e) eqn:U; [|reflexivity].
    rewrite (unsat_true vs G e HG) in U. rewrite (U a Ha) in Ga. discriminate.
Qed.
Lemma unsat_congr vs G G' e e' : ext G -> ext G' -> (forall a, G a = G' a) -> (forall w, ~ In w vs -> e w = e' w) ->
  unsat vs G e = unsat vs G' e'.
Proof.
  intros HG HG' E Ee. destruct (unsat vs G' e') eqn:U.
  - rewrite unsat_true in * by assumption. intros a Ha. rewrite E. apply U. intros w Hw. rewrite Ha by assumption. auto.
  - rewrite unsat_false in * by assumption. destruct U as (a & Ha & Ga). exists a. split; [|now rewrite E].
    intros w Hw. rewrite Ha by assumption. symmetry; auto.
Qed.
Lemma unsat_upd v b vs G x : ext G -> ~ In v vs -> unsat vs G (upd x v b) = unsat vs (cof G v b) x.
Proof.
  intros HG Hv. destruct (unsat vs (cof G v b) x) eqn:U.
  - rewrite unsat_true in * by auto using ext_cof. intros a Ha.
    rewrite <- (U (upd a v (x v))).
    + unfold cof. apply HG. intro w. unfold upd. destruct (N.eqb_spec w v) as [->|]; [|reflexivity].
      rewrite Ha by assumption. now rewrite upd_eq.
    + intros w Hw. destruct (N.eq_dec w v) as [->|Hne]; [now rewrite upd_eq|].
      rewrite upd_neq by assumption. rewrite Ha by assumption. now apply upd_neq.
  - rewrite unsat_false in * by auto using ext_cof. destruct U as (a & Ha & Ga).
    exists (upd a v b). split; [|exact Ga].
    intros w Hw. destruct (N.eq_dec w v) as [->|Hne]; [now rewrite !upd_eq|].
    rewrite !upd_neq by assumption. auto.
Qed.
Lemma unsat_cons v vs G x : ext G -> ~ In v vs ->
  unsat (v :: vs) G x = unsat vs (cof G v false) x && unsat vs (cof G v true) x.
Proof.
  intros HG Hv. unfold unsat at 1. cbn [assigns]. rewrite forallb_app.
  change (unsat vs G (upd x v false) && unsat vs G (upd x v true) = unsat vs (cof G v false) x && unsat vs (cof G v true) x).
  now rewrite !unsat_upd.
Qed.

(* proj respects pointwise equality of G; its result only differs from x on vs *)
Lemma proj_congr vs : forall G G' x, ext G -> ext G' -> (forall a, G a = G' a) -> eqe (proj vs G x) (proj vs G' x).
Proof.
  induction vs as [|v vs IH]; intros G G' x HG HG' E; cbn [proj]; [apply eqe_refl|].
  rewrite (unsat_congr vs (cof G v (x v)) (cof G' v (x v)) x x) by (auto using ext_cof; intro; apply E).
  apply eqe_upd. apply IH; auto using ext_cof. intro a; apply E.
Qed.
Lemma proj_out vs : forall G x w, ~ In w vs -> proj vs G x w = x w.
Proof.
  induction vs as [|v vs IH]; intros G x w Hw; cbn [proj]; [reflexivity|].
  rewrite upd_neq by (intro; subst; apply Hw; left; reflexivity). apply IH. intro; apply Hw; right; assumption.
Qed.

Lemma cs_congr vs F F' G G' x : ext F -> ext G -> ext G' -> (forall a, F a = F' a) -> (forall a, G a = G' a) ->
  constrain_spec vs F G x = constrain_spec vs F' G' x.
Proof.
  intros HF HG HG' EF EG. unfold constrain_spec.
  rewrite (unsat_congr vs G G' x x) by auto. destruct (unsat vs G' x); [reflexivity|].
  rewrite <- EF. apply HF. apply proj_congr; auto.
Qed.

(* one step of the specification at the first variable: exactly the shape of the BDD recursion *)
Lemma cs_step v vs F G x : ext F -> ext G -> ~ In v vs ->
  constrain_spec (v :: vs) F G x =
    if unsat vs (cof G v true) x then constrain_spec vs (cof F v false) (cof G v false) x
    else if unsat vs (cof G v false) x then constrain_spec vs (cof F v true) (cof G v true) x
    else if x v then constrain_spec vs (cof F v true) (cof G v true) x
    else constrain_spec vs (cof F v false) (cof G v false) x.
Proof.
  intros HF HG Hv. unfold constrain_spec at 1. rewrite unsat_cons by assumption. cbn [proj].
  unfold constrain_spec.
  destruct (unsat vs (cof G v true) x) eqn:U1, (unsat vs (cof G v false) x) eqn:U0, (x v) eqn:Xv; cbn [andb negb];
    rewrite ?U1, ?U0; reflexivity.
Qed.

(* ---------- trees vs the toolkit ---------- *)
Lemma tsem_ext t : ext (tsem t).
Proof.
  induction t as [|v ln l IHl h IHh]; intros a b E; cbn; [reflexivity|].
  rewrite (E v), (IHl a b E), (IHh a b E). reflexivity.
Qed.
Fixpoint tvars_in (vs : list N) (t : tree) : Prop :=
  match t with Leaf => True | Nd v _ l h => In v vs /\ tvars_in vs l /\ tvars_in vs h end.
Lemma tsem_agree vs t : tvars_in vs t -> forall a b, (forall w, In w vs -> a w = b w) -> tsem t a = tsem t b.
Proof.
  induction t as [|v ln l IHl h IHh]; cbn; intros H a b E; [reflexivity|].
  destruct H as (Hv & Hl & Hh). rewrite (E v Hv), (IHl Hl a b E), (IHh Hh a b E). reflexivity.
Qed.
Lemma tsem_indep_le t v w e b : above v t -> w <= v -> tsem t (upd e w b) = tsem t e.
Proof. intros H Hw. apply tsem_indep. eapply above_weaken; eauto. Qed.

(* constructive satisfiability of every signed tree other than (true, Leaf) *)
Lemma tree_sat t : ordered t -> reduced t -> forall n, ~ (n = true /\ t = Leaf) -> exists e, xorb n (tsem t e) = true.
Proof.
  induction t as [|v ln l IHl h IHh]; intros O R n Hn.
  - destruct n; [exfalso; apply Hn; auto|]. exists (fun _ => true). reflexivity.
  - destruct O as (Al & Ah & Ol & Oh). destruct R as (Rn & Rl & Rh).
    destruct n.
    + (* need tsem = false *)
      assert (Hh : h = Leaf \/ h <> Leaf) by (destruct h; [left|right]; congruence).
      destruct Hh as [->|Hnl].
      * (* high is Leaf: go low; low edge cannot be (false, Leaf) *)
        destruct (IHl Ol Rl (negb ln)) as [e He].
        { intros [E1 E2]. apply Rn. split; [now destruct ln|exact E2]. }
        exists (upd e v false). cbn. rewrite upd_eq. rewrite tsem_indep by assumption.
        now destruct ln, (tsem l e).
      * destruct (IHh Oh Rh true) as [e He]; [intros [_ E]; contradiction|].
        exists (upd e v true). cbn [tsem]. rewrite upd_eq. rewrite tsem_indep by assumption. exact He.
    + destruct (IHh Oh Rh false) as [e He]; [intros [E _]; discriminate|].
      exists (upd e v true). cbn [tsem]. rewrite upd_eq. rewrite tsem_indep by assumption. exact He.
Qed.

Lemma cs_skip w vs F G x : ext F -> ext G -> ~ In w vs -> indep F w -> indep G w ->
  constrain_spec (w :: vs) F G x = constrain_spec vs F G x.
Proof.
  intros HF HG Hw IF IG. rewrite cs_step by assumption.
  assert (E : forall b, constrain_spec vs (cof F w b) (cof G w b) x = constrain_spec vs F G x).
  { intro b. apply cs_congr; auto using ext_cof; intro a; unfold cof; [apply IF|apply IG]. }
  rewrite !E. repeat match goal with |- context[if ?c then _ else _] => destruct c end; reflexivity.
Qed.

Fixpoint asc (lb : N) (vs : list N) : Prop :=
  match vs with [] => True | v :: r => lb < v /\ asc v r end.
Lemma asc_lb lb vs : asc lb vs -> forall w, In w vs -> lb < w.
Proof.
  revert lb. induction vs as [|v r IH]; intros lb H w Hin; [destruct Hin|].
  destruct H as [Hv Hr]. destruct Hin as [<-|Hin]; [exact Hv|]. specialize (IH v Hr w Hin). lia.
Qed.
Lemma asc_notin lb vs : asc lb vs -> ~ In lb vs.
Proof. intros H Hin. apply (asc_lb _ _ H) in Hin. lia. Qed.

(* skip the variables below v on which neither function depends *)
Lemma cs_peel vs : forall lb, asc lb vs -> forall v, In v vs ->
  exists post, asc v post /\ (forall w, In w vs -> v < w -> In w post) /\ (forall w, In w post -> In w vs) /\
     forall F G x, ext F -> ext G -> (forall w, w < v -> indep F w /\ indep G w) ->
       constrain_spec vs F G x = constrain_spec (v :: post) F G x.
Proof.
  induction vs as [|w r IH]; intros lb Hasc v Hin; [destruct Hin|].
  destruct Hasc as [Hlb Hr]. destruct (N.eq_dec w v) as [->|Hne].
  - exists r. splits; auto.
    + intros w Hw Hlt. destruct Hw as [<-|Hw]; [lia|exact Hw].
    + intros; right; assumption.
  - destruct Hin as [E|Hin]; [congruence|].
    assert (Hwv : w < v) by (apply (asc_lb _ _ Hr); exact Hin).
    destruct (IH w Hr v Hin) as (post & Hp & Hsub & Hsup & Heq).
    exists post. splits; auto.
    + intros u Hu Hlt. destruct Hu as [<-|Hu]; [lia|]. apply Hsub; assumption.
    + intros; right; auto.
    + intros F G x HF HG Hind. rewrite cs_skip; auto; try apply Hind; auto. apply asc_notin. exact Hr.
Qed.

Lemma cof_shannon (F F0 F1 : bfun) v b : (forall e : env, F e = if e v then F1 e else F0 e) -> indep F0 v -> indep F1 v ->
  forall a, cof F v b a = (if b then F1 a else F0 a).
Proof. intros H I0 I1 a. unfold cof. rewrite H, upd_eq. destruct b; [apply I1|apply I0]. Qed.

Lemma asc_weaken lb lb' vs : lb' <= lb -> asc lb vs -> asc lb' vs.
Proof. destruct vs; cbn; [auto|]. intros ? [? ?]. split; [lia|assumption]. Qed.

(* the specification at the top variable v of the pair, in the shape of the BDD recursion *)
Lemma cs_at vs v : asc 0 vs -> In v vs ->
  exists post, asc v post /\ (forall w, In w vs -> v < w -> In w post) /\
  forall (F G F0 F1 G0 G1 : bfun) x, ext F -> ext G -> ext F0 -> ext F1 -> ext G0 -> ext G1 ->
    (forall w, w < v -> indep F w /\ indep G w) ->
    (forall e : env, F e = if e v then F1 e else F0 e) -> (forall e : env, G e = if e v then G1 e else G0 e) ->
    indep F0 v -> indep F1 v -> indep G0 v -> indep G1 v ->
    constrain_spec vs F G x =
      if unsat post G1 x then constrain_spec post F0 G0 x
      else if unsat post G0 x then constrain_spec post F1 G1 x
      else if x v then constrain_spec post F1 G1 x else constrain_spec post F0 G0 x.
Proof.
  intros Hasc Hin. destruct (cs_peel vs 0 Hasc v Hin) as (post & Hp & Hsub & _ & Heq).
  exists post. splits; auto.
  intros F G F0 F1 G0 G1 x HF HG HF0 HF1 HG0 HG1 Hind SF SG IF0 IF1 IG0 IG1.
  rewrite Heq by assumption. rewrite cs_step; auto; [|apply asc_notin; exact Hp].
  rewrite (unsat_congr post (cof G v true) G1 x x); auto using ext_cof; [|intro a; exact (cof_shannon G G0 G1 v true SG IG0 IG1 a)].
  rewrite (unsat_congr post (cof G v false) G0 x x); auto using ext_cof; [|intro a; exact (cof_shannon G G0 G1 v false SG IG0 IG1 a)].
  rewrite (cs_congr post (cof F v false) F0 (cof G v false) G0 x); auto using ext_cof;
    try (intro a; first [exact (cof_shannon F F0 F1 v false SF IF0 IF1 a)|exact (cof_shannon G G0 G1 v false SG IG0 IG1 a)]).
  rewrite (cs_congr post (cof F v true) F1 (cof G v true) G1 x); auto using ext_cof;
    try (intro a; first [exact (cof_shannon F F0 F1 v true SF IF0 IF1 a)|exact (cof_shannon G G0 G1 v true SG IG0 IG1 a)]).
Qed.

(* the projection lands in G, and fixes points of G *)
Lemma proj_in vs : forall G x, ext G -> NoDup vs -> unsat vs G x = false -> G (proj vs G x) = true.
Proof.
  induction vs as [|v vs IH]; intros G x HG Hnd U; cbn [proj].
  - unfold unsat in U. cbn in U. now destruct (G x).
  - inversion Hnd as [|? ? Hv Hnd']; subst. rewrite unsat_cons in U by assumption.
    set (b := if unsat vs (cof G v (x v)) x then negb (x v) else x v).
    assert (Ub : unsat vs (cof G v b) x = false).
    { subst b. destruct (unsat vs (cof G v (x v)) x) eqn:E; [|exact E].
      destruct (x v); cbn [negb] in *; rewrite E in U; cbn in U; [rewrite andb_true_r in U|]; exact U. }
    apply (IH (cof G v b) x) in Ub; auto using ext_cof.
Qed.
Lemma proj_fix vs : forall G x, ext G -> G x = true -> eqe (proj vs G x) x.
Proof.
  induction vs as [|v vs IH]; intros G x HG Gx; cbn [proj]; [apply eqe_refl|].
  assert (Hc : cof G v (x v) x = true).
  { unfold cof. rewrite <- Gx. apply HG. intro w. unfold upd. destruct (N.eqb_spec w v) as [->|]; reflexivity. }
  assert (U : unsat vs (cof G v (x v)) x = false).
  { apply unsat_false; auto using ext_cof. exists x. split; [reflexivity|exact Hc]. }
  rewrite U. intro w. unfold upd. destruct (N.eqb_spec w v) as [->|]; [reflexivity|].
  apply (IH (cof G v (x v)) x); auto using ext_cof.
Qed.
Lemma asc_NoDup lb vs : asc lb vs -> NoDup vs.
Proof.
  revert lb. induction vs as [|v r IH]; intros lb H; constructor.
  - destruct H as [_ H]. apply asc_notin in H. exact H.
  - destruct H as [_ H]. eauto.
Qed.
Lemma tvars_in_sub vs vs' t : tvars_in vs t -> (forall w, In w vs -> In w vs') -> tvars_in vs' t.
Proof. induction t; cbn; intuition. Qed.
Lemma tvars_in_post vs post v t : tvars_in vs t -> above v t -> (forall w, In w vs -> v < w -> In w post) -> tvars_in post t.
Proof. induction t as [|u ln l IHl h IHh]; cbn; intuition. Qed.
Lemma cs_unsat vs F G x : unsat vs G x = true -> constrain_spec vs F G x = false.
Proof. unfold constrain_spec. now intros ->. Qed.

(* ================= restrict: the shortcut-free Coudert-Madre recursion ================= *)
Definition differ (vs : list N) (F1 F2 : bfun) (e : env) : bool := existsb (fun a => xorb (F1 a) (F2 a)) (assigns vs e).
Definition bor (G0 G1 : bfun) : bfun := fun a => G0 a || G1 a.
Fixpoint rspec (vs : list N) (F G : bfun) (e : env) : bool :=
  match vs with
  | [] => F e
  | v :: vs' =>
    if unsat vs' (cof G v true) e then rspec vs' (cof F v false) (cof G v false) e
    else if unsat vs' (cof G v false) e then rspec vs' (cof F v true) (cof G v true) e
    else if differ vs' (cof F v false) (cof F v true) e
         then (if e v then rspec vs' (cof F v true) (cof G v true) e else rspec vs' (cof F v false) (cof G v false) e)
         else rspec vs' (cof F v false) (bor (cof G v false) (cof G v true)) e
  end.
Definition restrict_spec (vs : list N) (F G : bfun) : bfun :=
  fun e => if unsat vs G e then false else rspec vs F G e.

Lemma ext_bor G0 G1 : ext G0 -> ext G1 -> ext (bor G0 G1).
Proof. intros H0 H1 a b E. unfold bor. now rewrite (H0 a b E), (H1 a b E). Qed.

Lemma differ_false vs F1 F2 e : ext F1 -> ext F2 ->
  (differ vs F1 F2 e = false <-> forall a, (forall w, ~ In w vs -> a w = e w) -> F1 a = F2 a).
Proof.
  intros H1 H2. unfold differ. split.
  - intros H a Ha. destruct (assigns_complete vs e a Ha) as (a0 & Hin & E).
    assert (Hx : xorb (F1 a0) (F2 a0) = false).
    { destruct (xorb (F1 a0) (F2 a0)) eqn:X; [|reflexivity]. exfalso.
      assert (existsb (fun a => xorb (F1 a) (F2 a)) (assigns vs e) = true) by (apply existsb_exists; eauto). congruence. }
    rewrite <- (H1 a0 a E), <- (H2 a0 a E). now destruct (F1 a0), (F2 a0).
  - intro H. destruct (existsb _ _) eqn:X; [|reflexivity]. apply existsb_exists in X. destruct X as (a & Hin & Hx).
    rewrite (H a) in Hx; [now rewrite xorb_nilpotent in Hx|]. intros w Hw. eapply assigns_out; eauto.
Qed.
Lemma differ_congr vs F1 F2 F1' F2' e : ext F1 -> ext F2 -> ext F1' -> ext F2' ->
  (forall a, F1 a = F1' a) -> (forall a, F2 a = F2' a) -> differ vs F1 F2 e = differ vs F1' F2' e.
Proof.
  intros. destruct (differ vs F1' F2' e) eqn:D.
  - destruct (differ vs F1 F2 e) eqn:D'; [reflexivity|]. rewrite differ_false in D' by assumption.
    assert (differ vs F1' F2' e = false) by (apply differ_false; auto; intros a Ha; rewrite <- H3, <- H4; auto). congruence.
  - rewrite differ_false in * by assumption. intros a Ha. rewrite H3, H4. auto.
Qed.

Lemma rspec_congr vs : forall F F' G G' e, ext F -> ext F' -> ext G -> ext G' ->
  (forall a, F a = F' a) -> (forall a, G a = G' a) -> rspec vs F G e = rspec vs F' G' e.
Proof.
  induction vs as [|v vs IH]; intros F F' G G' e HF HF' HG HG' EF EG; cbn [rspec]; [apply EF|].
  rewrite (unsat_congr vs (cof G v true) (cof G' v true) e e); auto using ext_cof; [|intro a; apply EG].
  rewrite (unsat_congr vs (cof G v false) (cof G' v false) e e); auto using ext_cof; [|intro a; apply EG].
  rewrite (differ_congr vs (cof F v false) (cof F v true) (cof F' v false) (cof F' v true) e); auto using ext_cof;
    try (intro a; apply EF).
  rewrite (IH (cof F v false) (cof F' v false) (cof G v false) (cof G' v false) e); auto using ext_cof; try (intro a; first [apply EF|apply EG]).
  rewrite (IH (cof F v true) (cof F' v true) (cof G v true) (cof G' v true) e); auto using ext_cof; try (intro a; first [apply EF|apply EG]).
  rewrite (IH (cof F v false) (cof F' v false) (bor (cof G v false) (cof G v true)) (bor (cof G' v false) (cof G' v true)) e);
    auto using ext_cof, ext_bor; try (intro a; first [apply EF|unfold bor, cof; now rewrite !EG]).
Qed.
Lemma rs_congr vs F F' G G' e : ext F -> ext F' -> ext G -> ext G' ->
  (forall a, F a = F' a) -> (forall a, G a = G' a) -> restrict_spec vs F G e = restrict_spec vs F' G' e.
Proof.
  intros. unfold restrict_spec. rewrite (unsat_congr vs G G' e e) by auto.
  destruct (unsat vs G' e); [reflexivity|]. apply rspec_congr; auto.
Qed.

(* a variable on which neither function depends is skipped *)
Lemma rspec_skip w vs F G e : ext F -> ext G -> indep F w -> indep G w -> rspec (w :: vs) F G e = rspec vs F G e.
Proof.
  intros HF HG IF IG. cbn [rspec].
  assert (EF : forall b a, cof F w b a = F a) by (intros; apply IF).
  assert (EG : forall b a, cof G w b a = G a) by (intros; apply IG).
  assert (D : differ vs (cof F w false) (cof F w true) e = false).
  { apply differ_false; auto using ext_cof. intros a _. now rewrite !EF. }
  rewrite D.
  rewrite (rspec_congr vs (cof F w false) F (cof G w false) G e) by (auto using ext_cof).
  rewrite (rspec_congr vs (cof F w true) F (cof G w true) G e) by (auto using ext_cof).
  rewrite (rspec_congr vs (cof F w false) F (bor (cof G w false) (cof G w true)) G e); auto using ext_cof, ext_bor.
  - now destruct (unsat vs (cof G w true) e), (unsat vs (cof G w false) e).
  - intro a. unfold bor. rewrite !EG. apply orb_diag.
Qed.
Lemma rs_skip w vs F G e : ext F -> ext G -> ~ In w vs -> indep F w -> indep G w ->
  restrict_spec (w :: vs) F G e = restrict_spec vs F G e.
Proof.
  intros HF HG Hw IF IG. unfold restrict_spec. rewrite unsat_cons by assumption.
  rewrite (unsat_congr vs (cof G w false) G e e), (unsat_congr vs (cof G w true) G e e); auto using ext_cof; try (intro a; apply IG).
  rewrite andb_diag. now rewrite rspec_skip.
Qed.

Lemma unsat_bor vs G0 G1 e : ext G0 -> ext G1 -> unsat vs (bor G0 G1) e = unsat vs G0 e && unsat vs G1 e.
Proof.
  intros H0 H1. destruct (unsat vs G0 e) eqn:U0; cbn [andb].
  - destruct (unsat vs G1 e) eqn:U1.
    + rewrite unsat_true in * by auto using ext_bor. intros a Ha. unfold bor. now rewrite U0, U1.
    + rewrite unsat_false in * by auto using ext_bor. destruct U1 as (a & Ha & Ga). exists a. split; auto. unfold bor. now rewrite Ga, orb_true_r.
  - rewrite unsat_false in * by auto using ext_bor. destruct U0 as (a & Ha & Ga). exists a. split; auto. unfold bor. now rewrite Ga.
Qed.

Lemma rs_peel vs : forall lb, asc lb vs -> forall v, In v vs ->
  exists post, asc v post /\ (forall w, In w vs -> v < w -> In w post) /\
     forall F G e, ext F -> ext G -> (forall w, w < v -> indep F w /\ indep G w) ->
       restrict_spec vs F G e = restrict_spec (v :: post) F G e.
Proof.
  induction vs as [|w r IH]; intros lb Hasc v Hin; [destruct Hin|].
  destruct Hasc as [Hlb Hr]. destruct (N.eq_dec w v) as [->|Hne].
  - exists r. splits; auto. intros w Hw Hlt. destruct Hw as [<-|Hw]; [lia|exact Hw].
  - destruct Hin as [E|Hin]; [congruence|].
    assert (Hwv : w < v) by (apply (asc_lb _ _ Hr); exact Hin).
    destruct (IH w Hr v Hin) as (post & Hp & Hsub & Heq).
    exists post. splits; auto.
    + intros u Hu Hlt. destruct Hu as [<-|Hu]; [lia|]. apply Hsub; assumption.
    + intros F G e HF HG Hind. rewrite rs_skip; auto; try apply Hind; auto. apply asc_notin. exact Hr.
Qed.

Lemma rs_at vs v : asc 0 vs -> In v vs ->
  exists post, asc v post /\ (forall w, In w vs -> v < w -> In w post) /\
  forall (F G F0 F1 G0 G1 : bfun) e, ext F -> ext G -> ext F0 -> ext F1 -> ext G0 -> ext G1 ->
    (forall w, w < v -> indep F w /\ indep G w) ->
    (forall a : env, F a = if a v then F1 a else F0 a) -> (forall a : env, G a = if a v then G1 a else G0 a) ->
    indep F0 v -> indep F1 v -> indep G0 v -> indep G1 v ->
    restrict_spec vs F G e =
      if unsat post G1 e then restrict_spec post F0 G0 e
      else if unsat post G0 e then restrict_spec post F1 G1 e
      else if differ post F0 F1 e then (if e v then restrict_spec post F1 G1 e else restrict_spec post F0 G0 e)
      else restrict_spec post F0 (bor G0 G1) e.
Proof.
  intros Hasc Hin. destruct (rs_peel vs 0 Hasc v Hin) as (post & Hp & Hsub & Heq).
  exists post. splits; auto.
  intros F G F0 F1 G0 G1 e HF HG HF0 HF1 HG0 HG1 Hind SF SG IF0 IF1 IG0 IG1.
  rewrite Heq by assumption.
  assert (Hnv : ~ In v post) by (apply asc_notin; exact Hp).
  assert (CF : forall b a, cof F v b a = (if b then F1 a else F0 a)) by (intros; apply cof_shannon; auto).
  assert (CG : forall b a, cof G v b a = (if b then G1 a else G0 a)) by (intros; apply cof_shannon; auto).
  unfold restrict_spec at 1. rewrite unsat_cons by assumption. cbn [rspec].
  rewrite (unsat_congr post (cof G v true) G1 e e); auto using ext_cof; [|intro a; exact (CG true a)].
  rewrite (unsat_congr post (cof G v false) G0 e e); auto using ext_cof; [|intro a; exact (CG false a)].
  rewrite (differ_congr post (cof F v false) (cof F v true) F0 F1 e); auto using ext_cof; try (intro a; first [exact (CF false a)|exact (CF true a)]).
  rewrite (rspec_congr post (cof F v false) F0 (cof G v false) G0 e); auto using ext_cof; try (intro a; first [exact (CF false a)|exact (CG false a)]).
  rewrite (rspec_congr post (cof F v true) F1 (cof G v true) G1 e); auto using ext_cof; try (intro a; first [exact (CF true a)|exact (CG true a)]).
  rewrite (rspec_congr post (cof F v false) F0 (bor (cof G v false) (cof G v true)) (bor G0 G1) e); auto using ext_cof, ext_bor;
    try (intro a; first [exact (CF false a)|unfold bor; now rewrite (CG false a), (CG true a)]).
  unfold restrict_spec. rewrite unsat_bor by assumption.
  destruct (unsat post G1 e) eqn:U1, (unsat post G0 e) eqn:U0; cbn [andb]; try reflexivity;
  try (now destruct (differ post F0 F1 e), (e v)).
Qed.

(* ---- algebra of the specification: the code's shortcuts and the property's corollaries ---- *)
Lemma upd_self_eqe e v : eqe (upd e v (e v)) e.
Proof. intro w. unfold upd. destruct (N.eqb_spec w v) as [->|]; reflexivity. Qed.

Lemma rspec_care vs : forall F G e, ext F -> ext G -> G e = true -> rspec vs F G e = F e.
Proof.
  induction vs as [|v vs IH]; intros F G e HF HG Ge; cbn [rspec]; [reflexivity|].
  assert (CF : cof F v (e v) e = F e) by (unfold cof; apply HF; apply upd_self_eqe).
  assert (CG : cof G v (e v) e = true) by (unfold cof; rewrite <- Ge; apply HG; apply upd_self_eqe).
  assert (Hsat : unsat vs (cof G v (e v)) e = false).
  { apply unsat_false; auto using ext_cof. exists e. split; [reflexivity|exact CG]. }
  assert (Hd : differ vs (cof F v false) (cof F v true) e = false -> cof F v false e = cof F v true e).
  { intro D. rewrite differ_false in D by auto using ext_cof. apply D. reflexivity. }
  assert (Hbor : bor (cof G v false) (cof G v true) e = true).
  { unfold bor. destruct (e v); rewrite CG; [apply orb_true_r|reflexivity]. }
  destruct (e v) eqn:Ev.
  - rewrite Hsat. destruct (unsat vs (cof G v false) e).
    + rewrite IH; auto using ext_cof.
    + destruct (differ vs (cof F v false) (cof F v true) e) eqn:D.
      * rewrite IH; auto using ext_cof.
      * rewrite IH; auto using ext_cof, ext_bor. rewrite Hd; auto.
  - destruct (unsat vs (cof G v true) e).
    + rewrite IH; auto using ext_cof.
    + rewrite Hsat. destruct (differ vs (cof F v false) (cof F v true) e) eqn:D.
      * rewrite IH; auto using ext_cof.
      * rewrite IH; auto using ext_cof, ext_bor.
Qed.
Lemma rspec_const vs : forall F G e c, (forall a, F a = c) -> rspec vs F G e = c.
Proof.
  induction vs as [|v vs IH]; intros F G e c HF; cbn [rspec]; [apply HF|].
  assert (forall b a, cof F v b a = c) by (intros; apply HF).
  repeat match goal with |- context[if ?x then _ else _] => destruct x end; apply IH; auto.
Qed.
(* g implies f (on the assignments that matter) and g satisfiable: the result is the constant true *)
Lemma rspec_imp vs : forall F G e, ext F -> ext G ->
  (forall a, (forall w, ~ In w vs -> a w = e w) -> G a = true -> F a = true) ->
  unsat vs G e = false -> NoDup vs -> rspec vs F G e = true.
Proof.
  induction vs as [|v vs IH]; intros F G e HF HG Himp U Hnd; cbn [rspec].
  - unfold unsat in U; cbn in U. apply Himp; [reflexivity|]. now destruct (G e).
  - inversion Hnd as [|? ? Hv Hnd']; subst. rewrite unsat_cons in U by assumption.
    assert (Hc : forall b a, (forall w, ~ In w vs -> a w = e w) -> cof G v b a = true -> cof F v b a = true).
    { intros b a Ha. unfold cof. apply Himp. intros w Hw. destruct (N.eq_dec w v) as [->|Hne]; [exfalso; apply Hw; left; reflexivity|].
      rewrite upd_neq by assumption. apply Ha. intro; apply Hw; right; assumption. }
    destruct (unsat vs (cof G v true) e) eqn:U1.
    + rewrite andb_true_r in U. apply IH; auto using ext_cof.
    + destruct (unsat vs (cof G v false) e) eqn:U0.
      * apply IH; auto using ext_cof.
      * destruct (differ vs (cof F v false) (cof F v true) e) eqn:D.
        -- destruct (e v); apply IH; auto using ext_cof.
        -- rewrite differ_false in D by auto using ext_cof.
           apply IH; auto using ext_cof, ext_bor.
           ++ intros a Ha. unfold bor. intro Hor. apply orb_prop in Hor. destruct Hor as [H0|H1]; [now apply Hc|].
              rewrite (D a Ha). now apply Hc.
           ++ rewrite unsat_bor by auto using ext_cof. now rewrite U0.
Qed.
Lemma differ_neg vs F1 F2 e : differ vs (fun a => negb (F1 a)) (fun a => negb (F2 a)) e = differ vs F1 F2 e.
Proof.
  unfold differ. induction (assigns vs e) as [|a l IH]; cbn; [reflexivity|].
  rewrite IH. f_equal. now destruct (F1 a), (F2 a).
Qed.
Lemma rspec_neg vs : forall F G e, rspec vs (fun a => negb (F a)) G e = negb (rspec vs F G e).
Proof.
  induction vs as [|v vs IH]; intros F G e; cbn [rspec]; [reflexivity|].
  change (cof (fun a => negb (F a)) v false) with (fun a => negb (cof F v false a)).
  change (cof (fun a => negb (F a)) v true) with (fun a => negb (cof F v true a)).
  rewrite differ_neg, !IH. now repeat match goal with |- context[if ?x then _ else _] => destruct x end.
Qed.

(* C10: the greedy projection is the point of G closest to x when earlier variables weigh more:
   against any other point z of G, at the first listed variable where they differ it agrees with x *)
Theorem proj_closest vs : forall G x, ext G -> NoDup vs -> unsat vs G x = false ->
  forall z, G z = true -> (forall w, ~ In w vs -> z w = x w) ->
  (forall w, In w vs -> proj vs G x w = z w) \/
  exists pre v post, vs = pre ++ v :: post /\ (forall w, In w pre -> proj vs G x w = z w) /\
     proj vs G x v <> z v /\ proj vs G x v = x v.
Proof.
  induction vs as [|v vs IH]; intros G x HG Hnd U z Gz Hout; [left; intros w []|].
  inversion Hnd as [|? ? Hv Hnd']; subst. cbn [proj].
  set (b := if unsat vs (cof G v (x v)) x then negb (x v) else x v).
  assert (Ub : unsat vs (cof G v b) x = false).
  { rewrite unsat_cons in U by assumption. subst b. destruct (unsat vs (cof G v (x v)) x) eqn:E; [|exact E].
    destruct (x v); cbn [negb] in *; rewrite E in U; cbn in U; [rewrite andb_true_r in U|]; exact U. }
  set (y' := proj vs (cof G v b) x).
  assert (Hyv : upd y' v b v = b) by apply upd_eq.
  destruct (Bool.bool_dec (z v) b) as [Ezb|Nzb].
  - (* z agrees on v: descend *)
    set (z' := upd z v (x v)).
    assert (Gz' : cof G v b z' = true).
    { unfold cof, z'. rewrite <- Gz. apply HG. intro w. unfold upd. destruct (N.eqb_spec w v) as [->|]; [now rewrite Ezb|reflexivity]. }
    assert (Hout' : forall w, ~ In w vs -> z' w = x w).
    { intros w Hw. unfold z', upd. destruct (N.eqb_spec w v) as [->|Hne]; [reflexivity|]. apply Hout. intros [E|E]; [congruence|contradiction]. }
    destruct (IH (cof G v b) x (ext_cof G v b HG) Hnd' Ub z' Gz' Hout') as [Hall|(pre & v' & post & -> & Hpre & Hdiff & Hx)].
    + left. intros w [<-|Hw]; [rewrite Hyv; now rewrite Ezb|].
      assert (w <> v) by (intros ->; contradiction). rewrite upd_neq by assumption. fold y'. rewrite Hall by assumption.
      unfold z'. now rewrite upd_neq.
    + assert (Hv' : v' <> v) by (intros ->; apply Hv; apply in_or_app; right; left; reflexivity).
      right. exists (v :: pre), v', post. splits; auto.
      * intros w [<-|Hw]; [rewrite Hyv; now rewrite Ezb|].
        assert (w <> v) by (intros ->; apply Hv; apply in_or_app; left; assumption).
        rewrite upd_neq by assumption. fold y'. rewrite Hpre by assumption. unfold z'. now rewrite upd_neq.
      * rewrite upd_neq by assumption. fold y'. unfold z' in Hdiff. rewrite upd_neq in Hdiff by assumption. exact Hdiff.
      * rewrite upd_neq by assumption. exact Hx.
  - (* first difference at v itself: then b = x v *)
    right. exists [], v, vs. splits; auto; [intros w []|rewrite Hyv; congruence|rewrite Hyv].
    subst b. destruct (unsat vs (cof G v (x v)) x) eqn:E; [|reflexivity]. exfalso.
    (* z v <> negb (x v) means z v = x v, so z witnesses that the cofactor at x v is satisfiable *)
    assert (Ez : z v = x v) by (destruct (z v), (x v); cbn in Nzb; congruence).
    rewrite unsat_true in E by (apply ext_cof; exact HG).
    assert (cof G v (x v) (upd z v (x v)) = false).
    { apply E. intros w Hw. unfold upd. destruct (N.eqb_spec w v) as [->|Hne]; [reflexivity|]. apply Hout. intros [E'|E']; [congruence|contradiction]. }
    unfold cof in H.
    assert (E2 : G (upd (upd z v (x v)) v (x v)) = G z).
    { apply HG. intro w. unfold upd. destruct (N.eqb_spec w v) as [->|]; [now rewrite Ez|reflexivity]. }
    congruence.
Qed.
