(* The bracket string as a token sequence: `r:(x v, high, low)` for a node seen for the first time, `r` for a node already
   printed, the two constants.  The sequence determines the token tree: reading it back is the inverse of flattening, for
   every tree and whatever follows (unique readability), so nothing is lost between the tree of BddExport and the text. *)
From Coq Require Import NArith Bool List Lia.
Require Import Canon SemTk BddBase BddExport.
Import ListNotations.
Local Open Scope N_scope.

Inductive ttok := TTop | TBot | TRef (r : ref) | TOpen (r : ref) (v : N) | TComma | TClose.

Fixpoint flatten (t : btok) : list ttok :=
  match t with
  | BTop => [TTop]
  | BBot => [TBot]
  | BRef r => [TRef r]
  | BNode r v hi lo => TOpen r v :: flatten hi ++ TComma :: flatten lo ++ [TClose]
  end.

(* a recursive-descent reader; fuel = an upper bound on the number of tokens *)
Fixpoint read (fuel : nat) (l : list ttok) : option (btok * list ttok) :=
  match fuel with O => None | S fuel =>
    match l with
    | TTop :: r => Some (BTop, r)
    | TBot :: r => Some (BBot, r)
    | TRef x :: r => Some (BRef x, r)
    | TOpen x v :: r =>
      match read fuel r with
      | Some (hi, TComma :: r1) =>
        match read fuel r1 with
        | Some (lo, TClose :: r2) => Some (BNode x v hi lo, r2)
        | _ => None
        end
      | _ => None
      end
    | _ => None
    end
  end.

Lemma read_S : forall fuel l x, read fuel l = Some x -> read (S fuel) l = Some x.
Proof.
  induction fuel as [|fuel IH]; intros l x H; [discriminate|].
  remember (S fuel) as k eqn:Ek. rewrite Ek in H. cbn [read] in H |- *. subst k.
  destruct l as [|[| |r|r v| |] rest]; try exact H; try discriminate.
  destruct (read fuel rest) as [[hi [|[| | | | |] r1]]|] eqn:E1; try discriminate.
  rewrite (IH _ _ E1).
  destruct (read fuel r1) as [[lo [|[| | | | |] r2]]|] eqn:E2; try discriminate.
  rewrite (IH _ _ E2). exact H.
Qed.
Lemma read_mono k k' l x : (k <= k')%nat -> read k l = Some x -> read k' l = Some x.
Proof. intros Hle H. induction Hle; [exact H|apply read_S; assumption]. Qed.

(* unique readability: flattening followed by anything reads back as the tree and exactly that remainder *)
Lemma read_flatten_fuel : forall t rest fuel, (length (flatten t) <= fuel)%nat -> read fuel (flatten t ++ rest) = Some (t, rest).
Proof.
  induction t as [| |r|r v hi IHhi lo IHlo]; intros rest fuel Hf; (destruct fuel as [|fuel]; [cbn in Hf; lia|]); cbn [flatten app read]; try reflexivity.
  cbn [flatten length] in Hf. rewrite !app_length in Hf. cbn [length] in Hf. rewrite app_length in Hf. cbn [length] in Hf.
  rewrite <- app_assoc. cbn [app]. rewrite (IHhi _ fuel) by lia.
  rewrite <- app_assoc. cbn [app]. rewrite (IHlo _ fuel) by lia. reflexivity.
Qed.
Theorem read_flatten t rest : read (length (flatten t)) (flatten t ++ rest) = Some (t, rest).
Proof. apply read_flatten_fuel. lia. Qed.
Corollary flatten_injective t1 t2 : flatten t1 = flatten t2 -> t1 = t2.
Proof.
  intro H. pose proof (read_flatten t1 []) as R1. pose proof (read_flatten t2 []) as R2. rewrite H in R1. rewrite R1 in R2. now injection R2.
Qed.
Print Assumptions read_flatten.
