(* C02 — If-then-else computes (f AND g) OR (NOT f AND h) for every triple
   Only property theorems, each closed by quoting lemmas proved elsewhere, and Print Assumptions.
   Generated from Properties/bodies/C02.v.in by mkprop.py (shared preamble: hdr.txt, sec.txt). *)
From Coq Require Import Arith NArith Bool List Lia.
Require Import Canon SemTk CountTk TableProto BddBase BddIte BddCR BddSat BddCof BddCof2 BddCtor BddEval BddPaths BddPathsCount BddReach BddExport BddDot BddMinimal BddTerm BddTerm2 Glue Machine Reachable OpSpecs FuelMono FuelMono2 SpecCor BddBracketText.
Import ListNotations.
Local Open Scope N_scope.

Section C02.
  Variable nhash : node -> N.            (* any node hash: every collision pattern of the unique table *)
  Variable khash : key -> N.             (* any operation-cache hash *)
  Variable bmask cmask0 smask0 capacity : N.   (* any bucket count, cache sizes, capacity *)
  Hypothesis cap_ok : 2 <= capacity.
  Context {MS : Memo ref ref} {MC : Memo (ref * ref) ref} {MQ : Memo (nat * ref) ref} {MN : Memo ref N}.  (* any memo tables *)
  Local Instance pops : StoreOps := concrete_ops nhash khash.
  Local Instance pok : StoreOK := concrete_ok nhash khash.
  Notation reachable := (@reachable nhash khash bmask cmask0 smask0 capacity MS MC MQ MN).
  Notation mstep := (@mstep nhash khash MS MC MQ MN).
  Notation denotes := (denotes nhash khash).
  Notation denotes_in := (denotes_in nhash khash).
  Notation frame := (frame nhash khash).

  (* For every reachable manager state (any history of operations and collections, any cache contents and sizes) and
     every triple of live handles, one apply_ite step that returns at all returns a handle denoting
     (f AND g) OR (NOT f AND h); every handle that was live stays live with its meaning. *)
  Theorem C02_ite_sound mr f g h rf rg rh F G H fuel mr' x :
    reachable mr -> liveh mr f rf -> liveh mr g rg -> liveh mr h rh ->
    denotes mr rf F -> denotes mr rg G -> denotes mr rh H ->
    mstep fuel mr (HIte f g h) = Some (mr', x) ->
    exists r, x = OReg r /\ newreg mr mr' r /\ frame mr mr' /\ denotes mr' r (fun e => if F e then G e else H e).
  Proof. exact (ite_step_spec nhash khash bmask cmask0 smask0 capacity cap_ok mr f g h rf rg rh F G H fuel mr' x). Qed.

  (* the step is again a reachable state: the statement applies to every later operation as well *)
  Theorem C02_ite_stays_reachable mr f g h fuel mr' x :
    reachable mr -> mstep fuel mr (HIte f g h) = Some (mr', x) -> reachable mr'.
  Proof. intros HR Hs. econstructor; eauto. Qed.

  (* termination, on the concrete machine (any hash functions, bucket count, cache sizes, capacity): for every reachable
     state and every triple of live handles whose diagrams mention no variable above L, one apply_ite step with fuel
     3 * (L + 2) + 3 (the recursion depth is bounded by the number of variable levels: at most two argument rewrites
     precede each expansion, and expansion strictly raises the smallest top variable) yields no result ONLY IF the node
     table filled up on the way -- the crate's "Storage is full" panic: there is an extension s' of the store, satisfying
     the manager invariants, in which every cell 1 .. capacity-1 is occupied and the high-water mark is at the end. *)
  Theorem C02_ite_terminates mr f g h rf rg rh tf tg th L fuel :
    reachable mr -> liveh mr f rf -> liveh mr g rg -> liveh mr h rh ->
    V (store mr) rf tf -> V (store mr) rg tg -> V (store mr) rh th ->
    allle L tf -> allle L tg -> allle L th ->
    (3 * N.to_nat (L + 1) + 3 <= fuel)%nat ->
    mstep fuel mr (HIte f g h) = None ->
    exists s', sext (store mr) s' /\ Inv s' /\ storage_full node (tbl s').
  Proof. exact (ite_step_terminates nhash khash bmask cmask0 smask0 capacity cap_ok mr f g h rf rg rh tf tg th L fuel). Qed.
  (* the same without trees: a fuel bound exists for every triple of live handles *)
  Theorem C02_ite_fuel_bound mr f g h rf rg rh :
    reachable mr -> liveh mr f rf -> liveh mr g rg -> liveh mr h rh ->
    exists bound, forall fuel, (bound <= fuel)%nat -> mstep fuel mr (HIte f g h) = None ->
      exists s', sext (store mr) s' /\ Inv s' /\ storage_full node (tbl s').
  Proof. exact (ite_step_fuel_bound nhash khash bmask cmask0 smask0 capacity cap_ok mr f g h rf rg rh). Qed.
  (* over any abstract node store: ITE with that fuel returns None only if some `put` failed at an extension of the store;
     with a total `put` it always returns *)
  Theorem C02_ite_terminates_abstract (SO : StoreOps) (OK : StoreOK) L n k : (3 * n + 3 <= k)%nat -> @Term SO L k n.
  Proof. exact (@ite_terminates SO OK L n k). Qed.
  Theorem C02_ite_terminates_total_store (SO : StoreOps) (OK : StoreOK) L n k :
    (forall s nd, put s nd <> None) -> (3 * n + 3 <= k)%nat ->
    forall s a b c ta tb tc, Inv s -> CInv s -> V s a ta -> V s b tb -> V s c tc ->
      allle L ta -> allle L tb -> allle L tc -> (mu L ta tb tc <= n)%nat -> ite k s a b c <> None.
  Proof. exact (@ite_terminates_total SO OK L n k). Qed.
  Theorem C02_only_storage_full_stops s nd :
    cTInv nhash s -> cput_node nhash s nd = None -> storage_full node (tbl s).
  Proof. exact (cput_none_storage_full nhash s nd). Qed.
  (* a missing result is never an out-of-fuel artefact: above a bound the ITE line gives the same outcome -- the same new
     state and handle, or no result -- for every amount of fuel (`BddTerm.ite_down`: one unit less gives the same result;
     `FuelMono.ite_S`: one unit more does).  Unlike the "table is full somewhere" conclusion above, which any state of a
     finite table can be extended to satisfy, this statement is informative for the concrete manager. *)
  Theorem C02_ite_fuel_irrelevant mr f g h rf rg rh :
    reachable mr -> liveh mr f rf -> liveh mr g rg -> liveh mr h rh ->
    exists bound, forall fuel fuel', (bound <= fuel)%nat -> (bound <= fuel')%nat ->
      mstep fuel mr (HIte f g h) = mstep fuel' mr (HIte f g h).
  Proof. exact (ite_step_fuel_irrelevant nhash khash bmask cmask0 smask0 capacity cap_ok mr f g h rf rg rh). Qed.
  (* for EVERY operation line and every history: more fuel never changes a result that was obtained *)
  Theorem C02_more_fuel_same_result k k' mr o x : (k <= k')%nat -> mstep k mr o = Some x -> mstep k' mr o = Some x.
  Proof. exact (step_mono nhash khash k k' mr o x). Qed.
  Theorem C02_more_fuel_same_run k k' h mr x : (k <= k')%nat ->
    Reachable.mrun nhash khash k mr h = Some x -> Reachable.mrun nhash khash k' mr h = Some x.
  Proof. intro Hle. exact (run_mono nhash khash k k' Hle h mr x). Qed.
End C02.

Print Assumptions C02_ite_sound.
Print Assumptions C02_ite_stays_reachable.
Print Assumptions C02_ite_terminates.
Print Assumptions C02_ite_fuel_bound.
Print Assumptions C02_ite_terminates_abstract.
Print Assumptions C02_ite_terminates_total_store.
Print Assumptions C02_only_storage_full_stops.
Print Assumptions C02_ite_fuel_irrelevant.
Print Assumptions C02_more_fuel_same_result.
Print Assumptions C02_more_fuel_same_run.
