(* C02 — If-then-else computes (f AND g) OR (NOT f AND h) for every triple
   Only property theorems, each closed by quoting lemmas proved elsewhere, and Print Assumptions.
   Generated from Properties/bodies/C02.v.in by mkprop.py (shared preamble: hdr.txt, sec.txt). *)
From Coq Require Import Arith NArith Bool List Lia.
Require Import Canon SemTk CountTk TableProto BddBase BddIte BddCR BddSat BddCof BddCof2 BddCtor BddEval BddPaths BddPathsCount BddReach BddExport BddDot BddMinimal BddTerm Glue Machine Reachable OpSpecs.
Import ListNotations.
Local Open Scope N_scope.

Section C02.
  Variable nhash : node -> N.            (* any node hash: every collision pattern of the unique table *)
  Variable khash : key -> N.             (* any operation-cache hash *)
  Variable bmask cmask0 smask0 capacity : N.   (* any bucket count, cache sizes, capacity *)
  Hypothesis cap_ok : 2 <= capacity.
  Context {MS : Memo ref ref} {MC : Memo (ref * ref) ref} {MQ : Memo (nat * ref) ref} {MN : Memo ref N}.  (* any memo tables *)
  Local Instance pops : StoreOps := concrete_ops nhash khash.
  Local Instance pok : StoreOK := concrete_ok nhash khash.
  Notation reachable := (@reachable nhash khash bmask cmask0 smask0 capacity MS MC MQ MN).
  Notation mstep := (@mstep nhash khash MS MC MQ MN).
  Notation denotes := (denotes nhash khash).
  Notation denotes_in := (denotes_in nhash khash).
  Notation frame := (frame nhash khash).

  (* For every reachable manager state (any history of operations and collections, any cache contents and sizes) and
     every triple of live handles, one apply_ite step that returns at all returns a handle denoting
     (f AND g) OR (NOT f AND h); every handle that was live stays live with its meaning. *)
  Theorem C02_ite_sound mr f g h rf rg rh F G H fuel mr' x :
    reachable mr -> liveh mr f rf -> liveh mr g rg -> liveh mr h rh ->
    denotes mr rf F -> denotes mr rg G -> denotes mr rh H ->
    mstep fuel mr (HIte f g h) = Some (mr', x) ->
    exists r, x = OReg r /\ newreg mr mr' r /\ frame mr mr' /\ denotes mr' r (fun e => if F e then G e else H e).
  Proof. exact (ite_step_spec nhash khash bmask cmask0 smask0 capacity cap_ok mr f g h rf rg rh F G H fuel mr' x). Qed.

  (* the step is again a reachable state: the statement applies to every later operation as well *)
  Theorem C02_ite_stays_reachable mr f g h fuel mr' x :
    reachable mr -> mstep fuel mr (HIte f g h) = Some (mr', x) -> reachable mr'.
  Proof. intros HR Hs. econstructor; eauto. Qed.

  (* termination: over any node store whose `put` never fails (storage capacity permitting), apply_ite with fuel
     3*n+3 returns, where n bounds the number of variable levels below the smallest top variable of the arguments;
     the only other way the concrete model's step yields None is the crate's "Storage is full" stop. *)
  Theorem C02_ite_terminates_partial (SO : StoreOps) (OK : StoreOK) :
    (forall s nd, put s nd <> None) -> forall L n k, (3 * n + 3 <= k)%nat -> @Term SO L k n.
  Proof. intros Hp L n k Hk. exact (@ite_terminates SO OK Hp L n k Hk). Qed.
  Theorem C02_only_storage_full_stops s nd :
    cTInv nhash s -> cput_node nhash s nd = None ->
    TableProto.put node node_eqb nhash (sfuel s) (tbl s) nd = Full.
  Proof. exact (cput_none_full nhash s nd). Qed.
End C02.

Print Assumptions C02_ite_sound.
Print Assumptions C02_ite_stays_reachable.
Print Assumptions C02_ite_terminates_partial.
Print Assumptions C02_only_storage_full_stops.
