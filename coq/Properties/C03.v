(* C03 — Connectives, n-ary folds and expression evaluation mean what they say
   Only property theorems, each closed by quoting lemmas proved elsewhere, and Print Assumptions.
   Generated from Properties/bodies/C03.v.in by mkprop.py (shared preamble: hdr.txt, sec.txt). *)
From Coq Require Import Arith NArith Bool List Lia.
Require Import Canon SemTk CountTk TableProto BddBase BddIte BddCR BddSat BddCof BddCof2 BddCtor BddEval BddPaths BddPathsCount BddReach BddExport BddDot BddMinimal BddTerm BddTerm2 Glue Machine Reachable OpSpecs FuelMono FuelMono2 SpecCor BddBracketText.
Import ListNotations.
Local Open Scope N_scope.

Section C03.
  Variable nhash : node -> N.            (* any node hash: every collision pattern of the unique table *)
  Variable khash : key -> N.             (* any operation-cache hash *)
  Variable bmask cmask0 smask0 capacity : N.   (* any bucket count, cache sizes, capacity *)
  Hypothesis cap_ok : 2 <= capacity.
  Context {MS : Memo ref ref} {MC : Memo (ref * ref) ref} {MQ : Memo (nat * ref) ref} {MN : Memo ref N}.  (* any memo tables *)
  Local Instance pops : StoreOps := concrete_ops nhash khash.
  Local Instance pok : StoreOK := concrete_ok nhash khash.
  Notation reachable := (@reachable nhash khash bmask cmask0 smask0 capacity MS MC MQ MN).
  Notation mstep := (@mstep nhash khash MS MC MQ MN).
  Notation denotes := (denotes nhash khash).
  Notation denotes_in := (denotes_in nhash khash).
  Notation frame := (frame nhash khash).

  (* AND, OR, XOR, equivalence, implication *)
  Theorem C03_connectives mr o f g rf rg F G fuel mr' x :
    reachable mr -> liveh mr f rf -> liveh mr g rg -> denotes mr rf F -> denotes mr rg G ->
    mstep fuel mr (HBin o f g) = Some (mr', x) ->
    exists r, x = OReg r /\ newreg mr mr' r /\ frame mr mr' /\ denotes mr' r (fun e => bin_sem o (F e) (G e)).
  Proof. exact (bin_step_spec nhash khash bmask cmask0 smask0 capacity cap_ok mr o f g rf rg F G fuel mr' x). Qed.
  (* NOT: flips the complement bit, builds nothing *)
  Theorem C03_not mr f rf F fuel mr' x :
    reachable mr -> liveh mr f rf -> denotes mr rf F -> mstep fuel mr (HNot f) = Some (mr', x) ->
    x = OReg (rneg rf) /\ newreg mr mr' (rneg rf) /\ frame mr mr' /\ denotes mr' (rneg rf) (fun e => negb (F e)) /\ store mr' = store mr.
  Proof. exact (not_step_spec nhash khash bmask cmask0 smask0 capacity cap_ok mr f rf F fuel mr' x). Qed.
  (* n-ary folds: the conjunction / disjunction of all items; true / false for the empty list *)
  Theorem C03_many mr disj l rl (Fs : list bfun) fuel mr' x :
    reachable mr -> fetch_all (snd mr) l = Some rl -> Forall2 (fun r F => denotes mr r F) rl Fs ->
    mstep fuel mr (HMany disj l) = Some (mr', x) ->
    exists r, x = OReg r /\ newreg mr mr' r /\ frame mr mr' /\
      denotes mr' r (fun e => if disj then existsb (fun F => F e) Fs else forallb (fun F => F e) Fs).
  Proof. exact (many_step_spec nhash khash bmask cmask0 smask0 capacity cap_ok mr disj l rl Fs fuel mr' x). Qed.
  (* expression trees built with the raw constructors (XNot) and with the simplifying Expr::not / unary minus (XNeg):
     the result denotes the expression; the simplifications (double negation, negated terms) never change the meaning *)
  Theorem C03_expr mr xe ex (A : rarg -> bfun) fuel mr' x :
    reachable mr -> xlate (snd mr) xe = Some ex ->
    (forall a r0, liveh mr a r0 -> denotes mr r0 (A a)) ->
    mstep fuel mr (HExpr xe) = Some (mr', x) ->
    exists r, x = OReg r /\ newreg mr mr' r /\ frame mr mr' /\ denotes mr' r (xsem A xe).
  Proof. exact (expr_step_spec nhash khash bmask cmask0 smask0 capacity cap_ok mr xe ex A fuel mr' x). Qed.
  (* the simplifying constructor: evaluating Expr::not(x) is evaluating x and complementing the handle *)
  Theorem C03_not_constructor fuel s ex :
    eval fuel s (enot ex) = match eval fuel s ex with Some (s1, r) => Some (s1, rneg r) | None => None end.
  Proof. exact (eval_enot nhash khash fuel s ex). Qed.
  (* termination of the binary connectives (each is one ITE call): with fuel 3 * (number of variable levels + 1) + 3 no
     result ONLY IF the node table filled up *)
  Theorem C03_connectives_fuel_bound mr op f g rf rg :
    reachable mr -> liveh mr f rf -> liveh mr g rg ->
    exists bound, forall fuel, (bound <= fuel)%nat -> mstep fuel mr (HBin op f g) = None ->
      exists s', sext (store mr) s' /\ Inv s' /\ storage_full node (tbl s').
  Proof. exact (bin_step_fuel_bound nhash khash bmask cmask0 smask0 capacity cap_ok mr op f g rf rg). Qed.
  (* ... and of the n-ary folds and expression trees (sequences of ITE calls whose results stay within the same levels) *)
  Theorem C03_many_fuel_bound mr disj l rl :
    reachable mr -> fetch_all (snd mr) l = Some rl ->
    exists bound, forall fuel, (bound <= fuel)%nat -> mstep fuel mr (HMany disj l) = None ->
      exists s', sext (store mr) s' /\ Inv s' /\ storage_full node (tbl s').
  Proof. exact (many_step_fuel_bound nhash khash bmask cmask0 smask0 capacity cap_ok mr disj l rl). Qed.
  Theorem C03_expr_fuel_bound mr xe ex :
    reachable mr -> xlate (snd mr) xe = Some ex ->
    exists bound, forall fuel, (bound <= fuel)%nat -> mstep fuel mr (HExpr xe) = None ->
      exists s', sext (store mr) s' /\ Inv s' /\ storage_full node (tbl s').
  Proof. exact (expr_step_fuel_bound nhash khash bmask cmask0 smask0 capacity cap_ok mr xe ex). Qed.
End C03.

Print Assumptions C03_connectives.
Print Assumptions C03_not.
Print Assumptions C03_many.
Print Assumptions C03_expr.
Print Assumptions C03_not_constructor.
Print Assumptions C03_connectives_fuel_bound.
Print Assumptions C03_many_fuel_bound.
Print Assumptions C03_expr_fuel_bound.
