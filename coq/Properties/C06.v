(* C06 — Collection reclaims exactly the dead nodes and freed storage is reused
   Only property theorems, each closed by quoting lemmas proved elsewhere, and Print Assumptions.
   Generated from Properties/bodies/C06.v.in by mkprop.py (shared preamble: hdr.txt, sec.txt). *)
From Coq Require Import Arith NArith Bool List Lia.
Require Import Canon SemTk CountTk TableProto BddBase BddIte BddCR BddSat BddCof BddCof2 BddCtor BddEval BddPaths BddPathsCount BddReach BddExport BddDot BddMinimal BddTerm BddTerm2 Glue Machine Reachable OpSpecs FuelMono FuelMono2 SpecCor BddBracketText.
Import ListNotations.
Local Open Scope N_scope.

Section C06.
  Variable nhash : node -> N.            (* any node hash: every collision pattern of the unique table *)
  Variable khash : key -> N.             (* any operation-cache hash *)
  Variable bmask cmask0 smask0 capacity : N.   (* any bucket count, cache sizes, capacity *)
  Hypothesis cap_ok : 2 <= capacity.
  Context {MS : Memo ref ref} {MC : Memo (ref * ref) ref} {MQ : Memo (nat * ref) ref} {MN : Memo ref N}.  (* any memo tables *)
  Local Instance pops : StoreOps := concrete_ops nhash khash.
  Local Instance pok : StoreOK := concrete_ok nhash khash.
  Notation reachable := (@reachable nhash khash bmask cmask0 smask0 capacity MS MC MQ MN).
  Notation mstep := (@mstep nhash khash MS MC MQ MN).
  Notation denotes := (denotes nhash khash).
  Notation denotes_in := (denotes_in nhash khash).
  Notation frame := (frame nhash khash).

  (* immediately after a collection the number of stored nodes is the number of nodes reachable from the roots *)
  Theorem C06_count_after_gc mr roots rl fuel mr' x :
    reachable mr -> fetch_all (snd mr) roots = Some rl -> mstep fuel mr (HGc roots) = Some (mr', x) ->
    exists vis, descendants fuel (store mr) rl = Some vis /\ NoDup vis /\
      (forall i, In i vis <-> i = 1 \/ exists r, In r rl /\ Reach (store mr) (idx r) i) /\
      real_size (tbl (store mr')) = N.of_nat (length vis).
  Proof.
    intros HR Fl Hs.
    destruct (gc_step_spec nhash khash bmask cmask0 smask0 capacity cap_ok mr roots rl fuel mr' x HR Fl Hs) as (vis & Hd & _ & _ & _ & Hc & _).
    exists vis. split; [exact Hd|]. destruct (reachable_good nhash khash _ _ _ _ cap_ok _ HR) as (HI & _ & _ & Hg).
    unfold store in *.
    destruct (@descendants_ok pops pok fuel (core (fst mr)) rl vis HI (closed_of_inv _ HI)) as [Hnd Hin]; auto.
    intros r Hr. destruct (fetch_all_good nhash khash _ _ Hg _ _ Fl r Hr) as (t & Vt). eapply (okidx_of_V nhash khash); eauto.
  Qed.
  (* allocation: the lowest free cell is reused before the table grows (every cell below the returned index is occupied);
     the table grows only when every cell up to the high-water mark is occupied; a stored cell is never handed out *)
  Theorem C06_alloc (t t' : table node) i : AInv t -> alloc node t = Ok (t', i) ->
    AInv t' /\ ~ occupied t i /\ 1 <= i < cap t /\ occupied t' i /\ real_size t' = real_size t + 1 /\
    last_index t' = N.max (last_index t) i /\ (forall j, 1 <= j < i -> occupied t j) /\
    (last_index t < i -> real_size t = last_index t) /\ (forall j, j <> i -> tget (data t') j = tget (data t) j).
  Proof. intros HA H. destruct (alloc_ok node _ _ _ HA H) as (H1 & H2 & H3 & H4 & H5 & _ & _ & _ & _ & _ & H6 & H7 & H8 & H9). destruct H3 as [H3a H3b]. splits; auto. Qed.
  (* the high-water mark of used slots is the peak number of simultaneously stored nodes: kept by alloc and by drop *)
  Theorem C06_high_water_mark_alloc (t t' : table node) i p : AInv t -> Peak node t p -> alloc node t = Ok (t', i) -> Peak node t' (N.max p (real_size t')).
  Proof. exact (alloc_peak node t t' i p). Qed.
  Theorem C06_high_water_mark_drop (t : table node) i p : AInv t -> occupied t i -> 1 <= i -> Peak node t p -> Peak node (drop node t i) p.
  Proof. exact (drop_peak node t i p). Qed.
  (* the manager stops with "Storage is full" only when every cell is occupied, and then nothing is written *)
  Theorem C06_full_only_when_full (t : table node) : AInv t -> alloc node t = Full ->
    last_index t + 1 = cap t /\ real_size t = last_index t /\ forall k, 1 <= k < cap t -> occupied t k.
  Proof. exact (alloc_full node t). Qed.
  (* the run-level statement.  The concrete state carries a ghost register `peak`, read by nothing, that every successful
     put sets to max(peak, live count after the put) -- also for the puts inside one ITE / constrain / ... call -- and that
     collections and cache writes leave alone (first two theorems: that is all that ever writes it; it starts at 1, the
     terminal).  In EVERY reachable manager state the table's high-water mark equals that running maximum: freed cells
     are always reused before the table grows, over any history of operations and collections, any hash functions,
     bucket count, cache sizes and capacity. *)
  Theorem C06_peak_written_by_put s n s' i : cput_node nhash s n = Some (s', i) -> peak s' = N.max (peak s) (real_size (tbl s')).
  Proof. exact (peak_put nhash s n s' i). Qed.
  Theorem C06_peak_kept_by_gc fuel s roots s' : gc nhash khash fuel s roots = Some s' -> peak s' = peak s.
  Proof. exact (peak_gc nhash khash fuel s roots s'). Qed.
  Theorem C06_high_water_mark_every_state mr : reachable mr ->
    last_index (tbl (store mr)) = peak (store mr) /\ real_size (tbl (store mr)) <= peak (store mr).
  Proof.
    intro HR. destruct (reachable_good nhash khash _ _ _ _ cap_ok _ HR) as ((HT & _) & _).
    exact (high_water_is_peak nhash (store mr) HT).
  Qed.
  (* a workload whose live set fits can run indefinitely: while one cell is free, no put fails, in any reachable state *)
  Theorem C06_put_succeeds_when_room mr n : reachable mr ->
    real_size (tbl (store mr)) + 1 < cap (tbl (store mr)) -> cput_node nhash (store mr) n <> None.
  Proof.
    intros HR Hroom. destruct (reachable_good nhash khash _ _ _ _ cap_ok _ HR) as ((HT & _) & _).
    exact (cput_succeeds_when_room nhash (store mr) n HT Hroom).
  Qed.
  (* the same for the bare table under every put / collect history with arbitrary survivor predicates: p' is the maximum
     of the starting mark and the live counts after every step *)
  Theorem C06_table_history_peak fuel h (t : table node) p t' p' : AInv t -> TableProto.CInv node nhash pin t -> Peak node t p ->
    trun_peak node node_eqb nhash fuel t p h = Ok (t', p') -> last_index t' = p' /\ real_size t' <= p'.
  Proof.
    intros HA HC HP H. destruct (table_history_peak node node_eqb node_eqb_spec nhash pin fuel h t p t' p' HA HC HP H) as (A & B & _). auto.
  Qed.
  (* the manager stops ONLY with "Storage is full": for every reachable state and EVERY operation line (constructors,
     ITE, connectives, folds, expressions, cofactors, compose, constrain, restrict, all queries, exports, collection)
     there is a fuel bound from which on the model's step yields no result only if the node table filled up on the way
     (an invariant-respecting extension of the store in which every cell 1 .. capacity-1 is occupied); no operation
     loops, and malformed argument lines are skipped rather than failing *)
  Theorem C06_only_storage_full_stops_any_operation mr o : reachable mr ->
    exists bound, forall fuel, (bound <= fuel)%nat -> mstep fuel mr o = None ->
      exists s', sext (store mr) s' /\ Inv s' /\ storage_full node (tbl s').
  Proof. exact (mstep_progress nhash khash bmask cmask0 smask0 capacity cap_ok mr o). Qed.
  (* "an extension of the store with a full table" can be exhibited from any state of a finite table, so on its own the
     theorem above says little for the concrete manager; what makes it informative is that the fuel is NOT an observable:
     for every reachable state and every operation line (resp. every history) there is a bound above which the outcome --
     new state, registers and output, or no result -- is the same for every amount of fuel.  A missing result above the
     bound is therefore never an out-of-fuel artefact of the model; by inspection of the model the only other source of a
     missing result is a failed `put`, i.e. the crate's "Storage is full" panic. *)
  Theorem C06_fuel_is_not_an_observable mr o : reachable mr ->
    exists bound, forall k k', (bound <= k)%nat -> (bound <= k')%nat -> mstep k mr o = mstep k' mr o.
  Proof. exact (mstep_fuel_irrelevant nhash khash bmask cmask0 smask0 capacity cap_ok mr o). Qed.
  Theorem C06_fuel_is_not_an_observable_of_histories h mr : reachable mr ->
    exists bound, forall k k', (bound <= k)%nat -> (bound <= k')%nat ->
      Reachable.mrun nhash khash k mr h = Reachable.mrun nhash khash k' mr h.
  Proof. exact (mrun_fuel_irrelevant nhash khash bmask cmask0 smask0 capacity cap_ok h mr). Qed.
End C06.

Print Assumptions C06_count_after_gc.
Print Assumptions C06_alloc.
Print Assumptions C06_high_water_mark_alloc.
Print Assumptions C06_high_water_mark_drop.
Print Assumptions C06_full_only_when_full.
Print Assumptions C06_peak_written_by_put.
Print Assumptions C06_peak_kept_by_gc.
Print Assumptions C06_high_water_mark_every_state.
Print Assumptions C06_put_succeeds_when_room.
Print Assumptions C06_table_history_peak.
Print Assumptions C06_only_storage_full_stops_any_operation.
Print Assumptions C06_fuel_is_not_an_observable.
Print Assumptions C06_fuel_is_not_an_observable_of_histories.
