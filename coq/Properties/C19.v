(* C19 — RawTable behaves as a hash map and stays memory-safe under every history.
   Only property theorems, each closed by quoting lemmas proved elsewhere (RawProto.v), and Print Assumptions. *)
From Coq Require Import Arith NArith Bool List Lia.
Require Import TableProto RawProto.
Import ListNotations.
Local Open Scope N_scope.

Section C19.
  Variable K P : Type.                        (* key, payload *)
  Variable keqb : K -> K -> bool.
  Hypothesis keqb_spec : forall a b, reflect (a = b) (keqb a b).
  Variable hash : K -> N.                     (* any u64-valued hash: all equal, top bit set, wrap-around probes *)

  (* slots are modelled as (status word, option value) with None = uninitialised memory; a probe that finds neither a
     FREE slot nor a match within `capacity` steps is Hang (faithful: find mutates nothing); a failed debug assertion is
     AssertFailed.  EVERY history of insert / remove / get / clear from RawTable::new() returns ROk -- never Uninit,
     Hang or AssertFailed, so debug and release builds agree -- and its observations (existed flag, removed / looked-up
     payload) are exactly those of the finite map K -> option P; the final table is well-formed and still refines
     the map (present key found with its latest value, absent key reported absent) *)
  Theorem C19_every_history l : N.of_nat (length l) + 2 <= 2 ^ 62 ->
    exists t', rrun K P keqb hash (new_raw K P) l = ROk _ (t', snd (mrun K P keqb (fun _ => None) l)) /\
      WF K P hash t' /\ Refines K P t' (fst (mrun K P keqb (fun _ => None) l)).
  Proof. exact (raw_history_new K P keqb keqb_spec hash l). Qed.
  (* the same from any well-formed table refining a map *)
  Theorem C19_every_history_from l : forall t m, WF K P hash t -> Refines K P t m -> rlen K P t + N.of_nat (length l) + 2 <= 2 ^ 62 ->
    exists t', rrun K P keqb hash t l = ROk _ (t', snd (mrun K P keqb m l)) /\ WF K P hash t' /\ Refines K P t' (fst (mrun K P keqb m l)).
  Proof. exact (raw_history K P keqb keqb_spec hash l). Qed.
  (* every lookup terminates, on every well-formed table (in particular an exactly full one: WF keeps a FREE slot) *)
  Theorem C19_lookup_terminates t k : WF K P hash t ->
    match find K P keqb hash t k with
    | ROk _ (Some i) => i < rcap K P t /\ is_occ K P (tget (slots K P t) i) = true /\ exists p, sval K P (tget (slots K P t) i) = Some (k, p)
    | ROk _ None => forall p, ~ holds_kv K P t k p
    | _ => False
    end.
  Proof. exact (find_ok K P keqb keqb_spec hash t k). Qed.
  (* clear never reaches unreachable!() and leaves no entry *)
  Theorem C19_clear t : WF K P hash t -> exists t', clear K P t = ROk _ t' /\ WF K P hash t' /\ forall k p, ~ holds_kv K P t' k p.
  Proof. exact (clear_top_ok K P hash t). Qed.
  (* the reported length is the number of occupied slots, and iteration yields exactly that many values *)
  Theorem C19_iteration_length t : RInv K P hash t -> RCnt K P t -> N.of_nat (length (occ_vals K P t (N.to_nat (rcap K P t)))) = rlen K P t.
  Proof. exact (iter_len K P hash t). Qed.
  (* iteration yields exactly the stored entries and each key exactly once *)
  Theorem C19_iteration_exactly_once t : RInv K P hash t ->
    (forall k p, In (k, p) (occ_vals K P t (N.to_nat (rcap K P t))) <->
       exists i, i < rcap K P t /\ is_occ K P (tget (slots K P t) i) = true /\ sval K P (tget (slots K P t) i) = Some (k, p)) /\
    NoDup (map fst (occ_vals K P t (N.to_nat (rcap K P t)))).
  Proof. exact (iter_exactly_once K P hash t). Qed.
  (* the full operation set of the property: insert / remove / get / clear / reserve(n) for ANY n / iteration, in any order.
     Every call returns ROk; reserve changes no observable content; iteration lists every stored (key, value) pair of
     the map exactly once (no key twice, nothing else), in some order; the rest as above. *)
  Theorem C19_every_history_with_reserve_and_iteration l :
    N.of_nat (length l) + 2 <= 2 ^ 61 -> Forall (res_small K P) l ->
    exists t' obs, xrun K P keqb hash (new_raw K P) l = ROk _ (t', obs) /\ xspec K P keqb (fun _ => None) l obs /\
      WF K P hash t' /\ Refines K P t' (xfinal K P keqb (fun _ => None) l).
  Proof. exact (raw_history_x_new K P keqb keqb_spec hash l). Qed.
  Theorem C19_reserve t add : WF K P hash t -> rlen K P t + add <= 2 ^ 62 ->
    exists t1, reserve K P t add = ROk _ t1 /\ WF K P hash t1 /\ rlen K P t1 = rlen K P t /\ add <= rfree K P t1 /\
      (forall k p, holds_kv K P t1 k p <-> holds_kv K P t k p).
  Proof. exact (reserve_any_ok K P hash t add). Qed.
  Theorem C19_iteration t m : WF K P hash t -> Refines K P t m ->
    NoDup (map fst (iter K P t)) /\ (forall k p, In (k, p) (iter K P t) <-> m k = Some p) /\
    N.of_nat (length (iter K P t)) = rlen K P t.
  Proof. exact (iter_spec K P hash t m). Qed.
  Theorem C19_new_is_well_formed : WF K P hash (new_raw K P).
  Proof. exact (WF_new K P hash). Qed.
End C19.

Print Assumptions C19_every_history.
Print Assumptions C19_every_history_from.
Print Assumptions C19_lookup_terminates.
Print Assumptions C19_clear.
Print Assumptions C19_iteration_length.
Print Assumptions C19_iteration_exactly_once.
Print Assumptions C19_every_history_with_reserve_and_iteration.
Print Assumptions C19_reserve.
Print Assumptions C19_iteration.
Print Assumptions C19_new_is_well_formed.
