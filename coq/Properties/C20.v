(* C20 — eda: arena conversion preserves expressions; Signal encoding is lossless.
   Only property theorems, each closed by quoting lemmas proved elsewhere (EdaProto.v, SignalProto.v,
   StandaloneProofs.v), and Print Assumptions. *)
From Coq Require Import Arith NArith ZArith Bool List Lia.
Require Import TableProto EdaProto SignalProto Standalone StandaloneProofs.
Import ListNotations.
Local Open Scope N_scope.

(* flattening a boxed tree into the arena and collapsing the arena with ANY algebra (printing, evaluation, conversion
   back to a boxed tree, ...) gives exactly the fold of that algebra over the original tree: the arena prints identically,
   evaluates identically, and no `take().unwrap()` in collapse_exprs can fail *)
Theorem C20_arena_preserves_every_fold (T R : Type) (alg : EdaProto.kind T -> list R -> R) (e : EdaProto.bx T) :
  collapse T R alg (from_boxed T e) = Some (foldB T R alg e).
Proof. exact (collapse_from_boxed T R alg e). Qed.
(* evaluation over NOT / AND / OR: the arena evaluates to the value obtained by direct recursion *)
Theorem C20_eval (e : ebx) z : dvalue e = Some z -> eda_eval e = Some z.
Proof.
  intro H. unfold eda_eval, eda_arena. rewrite (collapse_from_boxed Z (option Z) alg_eval e), fold_eval_value, H. reflexivity.
Qed.
(* converting back yields an expression with the same value *)
Theorem C20_to_boxed_value (e : ebx) : exists b, eda_to_boxed e = Some b /\ dvalue b = dvalue e.
Proof.
  exists (foldB Z ebx alg_boxed e). split; [exact (collapse_from_boxed Z ebx alg_boxed e)|apply fold_boxed_value].
Qed.
(* negating any expression, a bare term included, negates its value *)
Theorem C20_negation (e : ebx) : dvalue (bnot Z e) = match dvalue e with Some x => Some (- x)%Z | None => None end.
Proof. exact (bnot_value e). Qed.

(* Signal (u32 arithmetic, wrap-around written out in the model) *)
Theorem C20_var_roundtrip v : v <= 1073741822 ->
  let s := from_var v in
  s < W /\ sig_var s = v /\ is_var s = true /\ is_input s = false /\ is_const s = false /\ is_negated s = false.
Proof. exact (var_roundtrip v). Qed.
Theorem C20_input_roundtrip i : i <= 1073741823 ->
  let s := from_input i in
  s < W /\ sig_input s = i /\ is_input s = true /\ is_var s = false /\ is_const s = false /\ is_negated s = false.
Proof. exact (input_roundtrip i). Qed.
Theorem C20_exactly_one_class s : s < W ->
  (is_const s = true /\ is_input s = false /\ is_var s = false) \/
  (is_const s = false /\ is_input s = true /\ is_var s = false) \/
  (is_const s = false /\ is_input s = false /\ is_var s = true).
Proof. exact (classes s). Qed.
Theorem C20_complement s : s < W ->
  snot s < W /\ snot (snot s) = s /\ sig_index (snot s) = sig_index s /\ is_negated (snot s) = negb (is_negated s) /\
  is_input (snot s) = is_input s /\ is_const (snot s) = is_const s /\ is_var (snot s) = is_var s.
Proof. exact (not_spec s). Qed.

Print Assumptions C20_arena_preserves_every_fold.
Print Assumptions C20_eval.
Print Assumptions C20_to_boxed_value.
Print Assumptions C20_negation.
Print Assumptions C20_var_roundtrip.
Print Assumptions C20_input_roundtrip.
Print Assumptions C20_exactly_one_class.
Print Assumptions C20_complement.
