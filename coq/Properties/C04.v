(* C04 — Every diagram is a reduced, ordered, complement-edge BDD of minimal size
   Only property theorems, each closed by quoting lemmas proved elsewhere, and Print Assumptions.
   Generated from Properties/bodies/C04.v.in by mkprop.py (shared preamble: hdr.txt, sec.txt). *)
From Coq Require Import Arith NArith Bool List Lia.
Require Import Canon SemTk CountTk TableProto BddBase BddIte BddCR BddSat BddCof BddCof2 BddCtor BddEval BddPaths BddPathsCount BddReach BddExport BddDot BddMinimal BddTerm BddTerm2 Glue Machine Reachable OpSpecs FuelMono FuelMono2 SpecCor BddBracketText.
Import ListNotations.
Local Open Scope N_scope.

Section C04.
  Variable nhash : node -> N.            (* any node hash: every collision pattern of the unique table *)
  Variable khash : key -> N.             (* any operation-cache hash *)
  Variable bmask cmask0 smask0 capacity : N.   (* any bucket count, cache sizes, capacity *)
  Hypothesis cap_ok : 2 <= capacity.
  Context {MS : Memo ref ref} {MC : Memo (ref * ref) ref} {MQ : Memo (nat * ref) ref} {MN : Memo ref N}.  (* any memo tables *)
  Local Instance pops : StoreOps := concrete_ops nhash khash.
  Local Instance pok : StoreOK := concrete_ok nhash khash.
  Notation reachable := (@reachable nhash khash bmask cmask0 smask0 capacity MS MC MQ MN).
  Notation mstep := (@mstep nhash khash MS MC MQ MN).
  Notation denotes := (denotes nhash khash).
  Notation denotes_in := (denotes_in nhash khash).
  Notation frame := (frame nhash khash).

  (* structure: every live handle unfolds to an ordered, reduced tree whose variables are positive; the stored cell of a
     decision node has a regular then-edge; no two cells hold the same triple; index 1 is the only terminal *)
  Theorem C04_structure mr a r : reachable mr -> liveh mr a r ->
    exists t, Rep (store mr) (idx r) t /\ ordered t /\ above 0 t /\ reduced t.
  Proof. intros HR HL. destruct (live_valid nhash khash _ _ _ _ cap_ok mr a r HR HL) as (t & Ht). exists t. exact Ht. Qed.
  Theorem C04_then_edge_regular mr i v ln tl th : reachable mr -> Rep (store mr) i (Nd v ln tl th) ->
    exists l h, cell (store mr) i = Some (Node v l h) /\ neg h = false /\ ln = neg l /\ i <> 1.
  Proof. intros _ HRep. inversion HRep as [|? ? l h ? ? Hi Hc Hn Hl Hh]; subst. exists l, h. auto. Qed.
  Theorem C04_unique_triples mr i j n : reachable mr -> cell (store mr) i = Some n -> cell (store mr) j = Some n -> i = j.
  Proof. intros HR. destruct (reachable_good nhash khash _ _ _ _ cap_ok _ HR) as ((HT & _) & _). exact (uniq _ i j n HT). Qed.
  Theorem C04_one_terminal mr : reachable mr -> cell (store mr) 1 = None /\ cell (store mr) 0 = None.
  Proof. intros HR. destruct (reachable_good nhash khash _ _ _ _ cap_ok _ HR) as ((HT & _) & _). exact (cell1 _ HT). Qed.

  (* size: the number of nodes reachable from f, terminal included, whatever the size cache holds *)
  Theorem C04_size mr f rf F fuel mr' x :
    reachable mr -> liveh mr f rf -> denotes mr rf F -> mstep fuel mr (HSize f) = Some (mr', x) ->
    store mr' = store mr /\ snd mr' = snd mr /\
    exists l, NoDup l /\ (forall j, In j l <-> j = 1 \/ Reach (store mr) (idx rf) j) /\ x = ONum (N.of_nat (length l)).
  Proof. exact (size_step_spec nhash khash bmask cmask0 smask0 capacity cap_ok mr f rf F fuel mr' x). Qed.
  (* it depends on the node index only (same for f and NOT f) and never changes while the manager only grows *)
  Theorem C04_size_stable fuel fuel' s s' f t l l' : Inv s -> Inv s' -> sext s s' -> V s f t ->
    descendants fuel s [f] = Some l -> descendants fuel' s' [rneg f] = Some l' -> length l = length l'.
  Proof.
    intros HI HI' E Vf D D'. apply (size_stable fuel fuel' s s' f t l l' HI HI' E Vf D). exact D'.
  Qed.
  (* minimality: distinct stored nodes denote functions that differ even up to complement; every reachable node is a
     cofactor of f by an assignment to a prefix of the variable order, and every such cofactor is a reachable node *)
  Theorem C04_nodes_distinct s i j ti tj : Inv s -> V s (R i false) ti -> V s (R j false) tj -> i <> j ->
    ~ (forall e, tsem ti e = tsem tj e) /\ ~ (forall e, tsem ti e = negb (tsem tj e)).
  Proof. exact (nodes_distinct s i j ti tj). Qed.
  Theorem C04_reachable_is_cofactor s f t : Inv s -> V s f t -> forall j, Reach s (idx f) j ->
    exists tj sigma b, V s (R j false) tj /\ forall e, tsem tj e = xorb b (cofs (rsem f t) sigma e).
  Proof. exact (reachable_is_cofactor s f t). Qed.
  Theorem C04_cofactor_is_reachable s : Inv s -> forall bs k f t, V s f t -> above (N.of_nat k) t ->
    exists r tr, V s r tr /\ (idx r = 1 \/ Reach s (idx f) (idx r)) /\ above (N.of_nat (k + length bs)) tr /\
      forall e, rsem r tr e = cofs (rsem f t) (prefix_assign k bs) e.
  Proof. exact (cofactor_is_reachable s). Qed.
  (* size always returns (fuel three times the table capacity) *)
  Theorem C04_size_returns mr f rf : reachable mr -> liveh mr f rf ->
    exists bound, forall fuel, (bound <= fuel)%nat -> mstep fuel mr (HSize f) <> None.
  Proof. exact (size_step_returns nhash khash bmask cmask0 smask0 capacity cap_ok mr f rf). Qed.
  (* the reported size is the same for f and NOT f: both queries count the nodes reachable from the same index *)
  Theorem C04_size_of_negation mr f g rf F fuel fuel' mr1 mr2 n1 n2 :
    reachable mr -> liveh mr f rf -> liveh mr g (rneg rf) -> denotes mr rf F ->
    mstep fuel mr (HSize f) = Some (mr1, ONum n1) -> mstep fuel' mr (HSize g) = Some (mr2, ONum n2) -> n1 = n2.
  Proof.
    intros HR Lf Lg DF S1 S2.
    destruct (size_step_spec nhash khash bmask cmask0 smask0 capacity cap_ok mr f rf F fuel mr1 _ HR Lf DF S1) as (_ & _ & l1 & N1 & M1 & E1).
    destruct (size_step_spec nhash khash bmask cmask0 smask0 capacity cap_ok mr g (rneg rf) (fun e => negb (F e)) fuel' mr2 _ HR Lg (denotes_neg nhash khash mr rf F DF) S2) as (_ & _ & l2 & N2 & M2 & E2).
    injection E1 as ->. injection E2 as ->. f_equal.
    apply Nat.le_antisymm; apply NoDup_incl_length; auto; intros j Hj; [apply M2; apply M1 in Hj|apply M1; apply M2 in Hj]; exact Hj.
  Qed.
End C04.

Print Assumptions C04_structure.
Print Assumptions C04_then_edge_regular.
Print Assumptions C04_unique_triples.
Print Assumptions C04_one_terminal.
Print Assumptions C04_size.
Print Assumptions C04_size_stable.
Print Assumptions C04_nodes_distinct.
Print Assumptions C04_reachable_is_cofactor.
Print Assumptions C04_cofactor_is_reachable.
Print Assumptions C04_size_returns.
Print Assumptions C04_size_of_negation.
