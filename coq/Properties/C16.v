(* C16 — Exports are faithful and every query leaves the manager untouched
   Only property theorems, each closed by quoting lemmas proved elsewhere, and Print Assumptions.
   Generated from Properties/bodies/C16.v.in by mkprop.py (shared preamble: hdr.txt, sec.txt). *)
From Coq Require Import Arith NArith Bool List Lia.
Require Import Canon SemTk CountTk TableProto BddBase BddIte BddCR BddSat BddCof BddCof2 BddCtor BddEval BddPaths BddPathsCount BddReach BddExport BddDot BddMinimal BddTerm BddTerm2 Glue Machine Reachable OpSpecs FuelMono FuelMono2 SpecCor BddBracketText.
Import ListNotations.
Local Open Scope N_scope.

Section C16.
  Variable nhash : node -> N.            (* any node hash: every collision pattern of the unique table *)
  Variable khash : key -> N.             (* any operation-cache hash *)
  Variable bmask cmask0 smask0 capacity : N.   (* any bucket count, cache sizes, capacity *)
  Hypothesis cap_ok : 2 <= capacity.
  Context {MS : Memo ref ref} {MC : Memo (ref * ref) ref} {MQ : Memo (nat * ref) ref} {MN : Memo ref N}.  (* any memo tables *)
  Local Instance pops : StoreOps := concrete_ops nhash khash.
  Local Instance pok : StoreOK := concrete_ok nhash khash.
  Notation reachable := (@reachable nhash khash bmask cmask0 smask0 capacity MS MC MQ MN).
  Notation mstep := (@mstep nhash khash MS MC MQ MN).
  Notation denotes := (denotes nhash khash).
  Notation denotes_in := (denotes_in nhash khash).
  Notation frame := (frame nhash khash).

  (* every query other than size returns the manager state unchanged: store, both caches, registers *)
  Theorem C16_queries_pure mr o fuel mr' x : is_query o = true -> mstep fuel mr o = Some (mr', x) -> mr' = mr.
  Proof. exact (query_pure nhash khash mr o fuel mr' x). Qed.
  (* size may only add a size-cache entry (invisible by C07): the node store and the registers are unchanged *)
  Theorem C16_size_pure mr f fuel mr' x : mstep fuel mr (HSize f) = Some (mr', x) -> store mr' = store mr /\ snd mr' = snd mr.
  Proof. exact (size_pure nhash khash mr f fuel mr' x). Qed.
  (* the node accessors build nothing *)
  Theorem C16_accessors_pure mr (hi : bool) f rf F fuel mr' x :
    reachable mr -> liveh mr f rf -> denotes mr rf F -> idx rf <> 1 ->
    mstep fuel mr (if hi then HHigh f else HLow f) = Some (mr', x) -> store mr' = store mr.
  Proof.
    intros HR HL HD Hn Hs.
    destruct (lowhigh_step_spec nhash khash bmask cmask0 smask0 capacity cap_ok mr hi f rf F fuel mr' x HR HL HD Hn Hs) as (r & _ & _ & _ & E & _). exact E.
  Qed.
  (* bracket export: reading the token tree back (first occurrence written in full, later ones as @idx references,
     complement marks on edges) yields the handle's function *)
  Theorem C16_bracket_faithful mr f rf F fuel mr' x :
    reachable mr -> liveh mr f rf -> denotes mr rf F -> mstep fuel mr (HBracket f) = Some (mr', x) ->
    mr' = mr /\ exists tok, x = OBracket tok /\ exists F' d, interp tok [] = Some (F', d) /\ forall e, F' e = F e.
  Proof. exact (bracket_step_spec nhash khash bmask cmask0 smask0 capacity cap_ok mr f rf F fuel mr' x). Qed.
  (* DOT export at record level: one root record per listed root (duplicates and constants included); the cell a reader
     reconstructs from the records (label -> variable, plain edge -> then-child, dashed / dotted-odot edge -> else-child
     and its complement mark) unfolds every root to exactly the tree the store holds *)
  Theorem C16_dot_faithful mr l rl fuel mr' x :
    reachable mr -> fetch_all (snd mr) l = Some rl -> mstep fuel mr (HDot l) = Some (mr', x) ->
    mr' = mr /\ exists recs, x = ODot recs /\
      (forall k r, nth_error rl k = Some r -> In (DRoot k r) recs) /\
      (forall r t, In r rl -> V (store mr) r t -> RepF (read_cell recs) (idx r) t).
  Proof. exact (dot_step_spec nhash khash bmask cmask0 smask0 capacity cap_ok mr l rl fuel mr' x). Qed.
  (* the bracket export and descendants always return and leave the state unchanged (fuel above the height of the diagram,
     resp. three times the table capacity plus the number of roots) *)
  Theorem C16_bracket_returns mr f rf : reachable mr -> liveh mr f rf ->
    exists bound, forall fuel, (bound <= fuel)%nat -> exists t, mstep fuel mr (HBracket f) = Some (mr, OBracket t).
  Proof. exact (bracket_step_returns nhash khash bmask cmask0 smask0 capacity cap_ok mr f rf). Qed.
  Theorem C16_descendants_returns mr l rl : reachable mr -> fetch_all (snd mr) l = Some rl ->
    exists bound, forall fuel, (bound <= fuel)%nat -> exists vis, mstep fuel mr (HDesc l) = Some (mr, OList vis).
  Proof. exact (desc_step_returns nhash khash bmask cmask0 smask0 capacity cap_ok mr l rl). Qed.
  Theorem C16_dot_returns mr l rl : reachable mr -> fetch_all (snd mr) l = Some rl ->
    exists bound, forall fuel, (bound <= fuel)%nat -> exists recs, mstep fuel mr (HDot l) = Some (mr, ODot recs).
  Proof. exact (dot_step_returns nhash khash bmask cmask0 smask0 capacity cap_ok mr l rl). Qed.
  (* the text layer of the bracket string: the token tree is printed as the token sequence `flatten t` (`r:(x v, ` high `, `
     low `)` for a node printed for the first time, `r` for a back reference, the two constants; the driver prints exactly
     these tokens and the result is compared with the crate's text character for character).  The sequence is uniquely
     readable: a recursive-descent reader returns the tree and exactly what followed it, so the text determines the tree. *)
  Theorem C16_bracket_text_uniquely_readable t rest : read (length (flatten t)) (flatten t ++ rest) = Some (t, rest).
  Proof. exact (read_flatten t rest). Qed.
  Theorem C16_bracket_text_injective t1 t2 : flatten t1 = flatten t2 -> t1 = t2.
  Proof. exact (flatten_injective t1 t2). Qed.
End C16.

Print Assumptions C16_queries_pure.
Print Assumptions C16_size_pure.
Print Assumptions C16_accessors_pure.
Print Assumptions C16_bracket_faithful.
Print Assumptions C16_dot_faithful.
Print Assumptions C16_bracket_returns.
Print Assumptions C16_descendants_returns.
Print Assumptions C16_dot_returns.
Print Assumptions C16_bracket_text_uniquely_readable.
Print Assumptions C16_bracket_text_injective.
