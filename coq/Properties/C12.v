(* C12 — Constant and implication tests decide correctly, always return, build nothing
   Only property theorems, each closed by quoting lemmas proved elsewhere, and Print Assumptions.
   Generated from Properties/bodies/C12.v.in by mkprop.py (shared preamble: hdr.txt, sec.txt). *)
From Coq Require Import Arith NArith Bool List Lia.
Require Import Canon SemTk CountTk TableProto BddBase BddIte BddCR BddSat BddCof BddCof2 BddCtor BddEval BddPaths BddPathsCount BddReach BddExport BddDot BddMinimal BddTerm BddTerm2 Glue Machine Reachable OpSpecs FuelMono FuelMono2 SpecCor BddBracketText.
Import ListNotations.
Local Open Scope N_scope.

Section C12.
  Variable nhash : node -> N.            (* any node hash: every collision pattern of the unique table *)
  Variable khash : key -> N.             (* any operation-cache hash *)
  Variable bmask cmask0 smask0 capacity : N.   (* any bucket count, cache sizes, capacity *)
  Hypothesis cap_ok : 2 <= capacity.
  Context {MS : Memo ref ref} {MC : Memo (ref * ref) ref} {MQ : Memo (nat * ref) ref} {MN : Memo ref N}.  (* any memo tables *)
  Local Instance pops : StoreOps := concrete_ops nhash khash.
  Local Instance pok : StoreOK := concrete_ok nhash khash.
  Notation reachable := (@reachable nhash khash bmask cmask0 smask0 capacity MS MC MQ MN).
  Notation mstep := (@mstep nhash khash MS MC MQ MN).
  Notation denotes := (denotes nhash khash).
  Notation denotes_in := (denotes_in nhash khash).
  Notation frame := (frame nhash khash).

  (* ite_constant: Some b exactly when ITE(f,g,h) is the constant b, None exactly when it is not constant -- whatever
     the operation cache contains (the state is any reachable one) -- and the manager state is returned unchanged *)
  Theorem C12_ite_constant mr f g h rf rg rh F G H fuel mr' x :
    reachable mr -> liveh mr f rf -> liveh mr g rg -> liveh mr h rh ->
    denotes mr rf F -> denotes mr rg G -> denotes mr rh H ->
    mstep fuel mr (HItec f g h) = Some (mr', x) ->
    mr' = mr /\ exists o, x = OOptBool o /\
      match o with
      | Some b => forall e, (if F e then G e else H e) = b
      | None => forall b, ~ (forall e, (if F e then G e else H e) = b)
      end.
  Proof. exact (itec_step_spec nhash khash bmask cmask0 smask0 capacity cap_ok mr f g h rf rg rh F G H fuel mr' x). Qed.
  Theorem C12_is_implies mr f g rf rg F G fuel mr' x :
    reachable mr -> liveh mr f rf -> liveh mr g rg -> denotes mr rf F -> denotes mr rg G ->
    mstep fuel mr (HImplies f g) = Some (mr', x) ->
    mr' = mr /\ exists b, x = OBool b /\ (b = true <-> forall e, F e = true -> G e = true).
  Proof. exact (implies_step_spec nhash khash bmask cmask0 smask0 capacity cap_ok mr f g rf rg F G fuel mr' x). Qed.
  (* no panic for any cache content: the model of ite_constant has no failing branch (its only non-value is running
     out of fuel); the pinned commit's model has one, reached by Pinned/PinnedIte.itec_cached_terminal_panics *)
  Theorem C12_builds_nothing mr f g h fuel mr' x : mstep fuel mr (HItec f g h) = Some (mr', x) -> mr' = mr.
  Proof. apply (query_pure nhash khash). reflexivity. Qed.
  (* both return: for every reachable state (any cache content) and live handles there is a fuel bound (number of variable
     levels + 2) from which on the model's step yields a value and leaves the state unchanged -- the model has no failing
     branch, allocates nothing, and the recursion depth is bounded by the number of variable levels *)
  Theorem C12_ite_constant_returns mr f g h rf rg rh :
    reachable mr -> liveh mr f rf -> liveh mr g rg -> liveh mr h rh ->
    exists bound, forall fuel, (bound <= fuel)%nat -> exists o, mstep fuel mr (HItec f g h) = Some (mr, OOptBool o).
  Proof. exact (itec_step_returns nhash khash bmask cmask0 smask0 capacity cap_ok mr f g h rf rg rh). Qed.
  Theorem C12_is_implies_returns mr f g rf rg :
    reachable mr -> liveh mr f rf -> liveh mr g rg ->
    exists bound, forall fuel, (bound <= fuel)%nat -> exists b, mstep fuel mr (HImplies f g) = Some (mr, OBool b).
  Proof. exact (implies_step_returns nhash khash bmask cmask0 smask0 capacity cap_ok mr f g rf rg). Qed.
End C12.

Print Assumptions C12_ite_constant.
Print Assumptions C12_is_implies.
Print Assumptions C12_builds_nothing.
Print Assumptions C12_ite_constant_returns.
Print Assumptions C12_is_implies_returns.
