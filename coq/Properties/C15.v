(* C15 — Constructors build the function they name
   Only property theorems, each closed by quoting lemmas proved elsewhere, and Print Assumptions.
   Generated from Properties/bodies/C15.v.in by mkprop.py (shared preamble: hdr.txt, sec.txt). *)
From Coq Require Import Arith NArith Bool List Lia.
Require Import Canon SemTk CountTk TableProto BddBase BddIte BddCR BddSat BddCof BddCof2 BddCtor BddEval BddPaths BddPathsCount BddReach BddExport BddDot BddMinimal BddTerm BddTerm2 Glue Machine Reachable OpSpecs FuelMono FuelMono2 SpecCor BddBracketText.
Import ListNotations.
Local Open Scope N_scope.

Section C15.
  Variable nhash : node -> N.            (* any node hash: every collision pattern of the unique table *)
  Variable khash : key -> N.             (* any operation-cache hash *)
  Variable bmask cmask0 smask0 capacity : N.   (* any bucket count, cache sizes, capacity *)
  Hypothesis cap_ok : 2 <= capacity.
  Context {MS : Memo ref ref} {MC : Memo (ref * ref) ref} {MQ : Memo (nat * ref) ref} {MN : Memo ref N}.  (* any memo tables *)
  Local Instance pops : StoreOps := concrete_ops nhash khash.
  Local Instance pok : StoreOK := concrete_ok nhash khash.
  Notation reachable := (@reachable nhash khash bmask cmask0 smask0 capacity MS MC MQ MN).
  Notation mstep := (@mstep nhash khash MS MC MQ MN).
  Notation denotes := (denotes nhash khash).
  Notation denotes_in := (denotes_in nhash khash).
  Notation frame := (frame nhash khash).

  Theorem C15_constants mr b fuel mr' x : reachable mr -> mstep fuel mr (HConst b) = Some (mr', x) ->
    exists r, x = OReg r /\ newreg mr mr' r /\ frame mr mr' /\ denotes mr' r (fun _ => b) /\ r = (if b then one else zero).
  Proof. intros HR Hs. eapply const_step_spec; eauto. Qed.
  Theorem C15_mk_var mr v fuel mr' x : reachable mr -> 0 < v -> mstep fuel mr (HVar v) = Some (mr', x) ->
    exists r, x = OReg r /\ newreg mr mr' r /\ frame mr mr' /\ denotes mr' r (fun e => e v).
  Proof. exact (var_step_spec nhash khash bmask cmask0 smask0 capacity cap_ok mr v fuel mr' x). Qed.
  (* mk_node(v, e, t), v smaller than every variable of e and t: "if x_v then t else e"; returns e when e == t *)
  Theorem C15_mk_node mr v lo hi rl rh L Hf fuel mr' x :
    reachable mr -> liveh mr lo rl -> liveh mr hi rh -> denotes mr rl L -> denotes mr rh Hf ->
    0 < v -> below nhash khash (store mr) v rl = true -> below nhash khash (store mr) v rh = true ->
    mstep fuel mr (HNode v lo hi) = Some (mr', x) ->
    exists r, x = OReg r /\ newreg mr mr' r /\ frame mr mr' /\
      denotes mr' r (fun e => if e v then Hf e else L e) /\ (rl = rh -> r = rl).
  Proof. exact (node_step_spec nhash khash bmask cmask0 smask0 capacity cap_ok mr v lo hi rl rh L Hf fuel mr' x). Qed.
  (* cube / clause over distinct variables: the conjunction / disjunction of the literals, in any listing order;
     cube [] = true, clause [] = false *)
  Theorem C15_cube_clause mr cl l fuel mr' x :
    reachable mr -> distinct_pos l = true -> mstep fuel mr (HCube cl l) = Some (mr', x) ->
    exists r, x = OReg r /\ newreg mr mr' r /\ frame mr mr' /\ denotes mr' r (lits_sem cl l).
  Proof. exact (cube_step_spec nhash khash bmask cmask0 smask0 capacity cap_ok mr cl l fuel mr' x). Qed.
  Theorem C15_listing_order_irrelevant cl l l' e : Permutation.Permutation l l' -> lits_sem cl l e = lits_sem cl l' e.
  Proof. exact (lits_sem_perm cl l l' e). Qed.
  Theorem C15_empty e : lits_sem false [] e = true /\ lits_sem true [] e = false.
  Proof. split; reflexivity. Qed.
  (* all of them return canonical handles: the results are live handles of a reachable state, so C01 applies *)
  Theorem C15_results_canonical mr o fuel mr' x : reachable mr -> mstep fuel mr o = Some (mr', x) -> reachable mr'.
  Proof. intros HR Hs. econstructor; eauto. Qed.
End C15.

Print Assumptions C15_constants.
Print Assumptions C15_mk_var.
Print Assumptions C15_mk_node.
Print Assumptions C15_cube_clause.
Print Assumptions C15_listing_order_irrelevant.
Print Assumptions C15_empty.
Print Assumptions C15_results_canonical.
