(* C05 — Garbage collection never changes the meaning of anything reachable from roots
   Only property theorems, each closed by quoting lemmas proved elsewhere, and Print Assumptions.
   Generated from Properties/bodies/C05.v.in by mkprop.py (shared preamble: hdr.txt, sec.txt). *)
From Coq Require Import Arith NArith Bool List Lia.
Require Import Canon SemTk CountTk TableProto BddBase BddIte BddCR BddSat BddCof BddCof2 BddCtor BddEval BddPaths BddPathsCount BddReach BddExport BddDot BddMinimal BddTerm BddTerm2 Glue Machine Reachable OpSpecs FuelMono FuelMono2 SpecCor BddBracketText.
Import ListNotations.
Local Open Scope N_scope.

Section C05.
  Variable nhash : node -> N.            (* any node hash: every collision pattern of the unique table *)
  Variable khash : key -> N.             (* any operation-cache hash *)
  Variable bmask cmask0 smask0 capacity : N.   (* any bucket count, cache sizes, capacity *)
  Hypothesis cap_ok : 2 <= capacity.
  Context {MS : Memo ref ref} {MC : Memo (ref * ref) ref} {MQ : Memo (nat * ref) ref} {MN : Memo ref N}.  (* any memo tables *)
  Local Instance pops : StoreOps := concrete_ops nhash khash.
  Local Instance pok : StoreOK := concrete_ok nhash khash.
  Notation reachable := (@reachable nhash khash bmask cmask0 smask0 capacity MS MC MQ MN).
  Notation mstep := (@mstep nhash khash MS MC MQ MN).
  Notation denotes := (denotes nhash khash).
  Notation denotes_in := (denotes_in nhash khash).
  Notation frame := (frame nhash khash).

  (* one collection with live roots: exactly the registers whose node was marked stay live; every surviving handle
     (roots, and everything reachable from a root) keeps its tree, hence its function; nothing new appears in the
     store; both caches are emptied *)
  Theorem C05_gc mr roots rl fuel mr' x :
    reachable mr -> fetch_all (snd mr) roots = Some rl -> mstep fuel mr (HGc roots) = Some (mr', x) ->
    exists vis, descendants fuel (store mr) rl = Some vis /\
      (forall a r, liveh mr' a r -> liveh mr a r /\ (idx r = 1 \/ In (idx r) vis)) /\
      (forall a r, liveh mr a r -> In (idx r) vis -> liveh mr' a r) /\
      (forall r t, V (store mr) r t -> idx r = 1 \/ In (idx r) vis -> V (store mr') r t) /\
      real_size (tbl (store mr')) = N.of_nat (length vis) /\
      (forall i n, ccell (store mr') i = Some n -> ccell (store mr) i = Some n) /\
      (forall k, cache_get khash (opc (store mr')) k = None) /\
      (forall r, sc_get (szc (fst mr')) r = None).
  Proof. exact (gc_step_spec nhash khash bmask cmask0 smask0 capacity cap_ok mr roots rl fuel mr' x). Qed.
  (* in particular a surviving handle denotes after the collection exactly what it denoted before *)
  Theorem C05_meaning_preserved mr roots rl fuel mr' x a r F :
    reachable mr -> fetch_all (snd mr) roots = Some rl -> mstep fuel mr (HGc roots) = Some (mr', x) ->
    liveh mr' a r -> denotes mr r F -> denotes mr' r F.
  Proof.
    intros HR Fl Hs HL (t & Vt & St).
    destruct (gc_step_spec nhash khash bmask cmask0 smask0 capacity cap_ok mr roots rl fuel mr' x HR Fl Hs) as (vis & _ & H1 & _ & H3 & _).
    destruct (H1 _ _ HL) as [_ Hin]. exists t. split; [apply H3; auto|exact St].
  Qed.
  (* the state after a collection is reachable, so every theorem about later operations (C01-C16) applies to it:
     a survivor is still the canonical representative, and later operations remain correct although freed slots are
     reused for new nodes *)
  Theorem C05_after_gc_reachable mr roots fuel mr' x : reachable mr -> mstep fuel mr (HGc roots) = Some (mr', x) -> reachable mr'.
  Proof. intros HR Hs. econstructor; eauto. Qed.
  Theorem C05_still_canonical mr roots fuel mr' x a b ra rb Fa Fb :
    reachable mr -> mstep fuel mr (HGc roots) = Some (mr', x) ->
    liveh mr' a ra -> liveh mr' b rb -> denotes mr' ra Fa -> denotes mr' rb Fb -> (ra = rb <-> forall e, Fa e = Fb e).
  Proof.
    intros HR Hs _ _ (ta & Va & Sa) (tb & Vb & Sb).
    assert (HR' : reachable mr') by (econstructor; eauto).
    destruct (reachable_good nhash khash _ _ _ _ cap_ok _ HR') as (HI & _).
    rewrite (handle_eq_iff _ _ _ _ _ HI Va Vb). split; intros H e; [rewrite <- Sa, <- Sb|rewrite Sa, Sb]; apply H.
  Qed.
  (* a collection always completes: with fuel three times the table capacity plus the number of roots the step yields a
     result, in every reachable state, for every list of live roots *)
  Theorem C05_gc_returns mr roots rl : reachable mr -> fetch_all (snd mr) roots = Some rl ->
    exists bound, forall fuel, (bound <= fuel)%nat -> mstep fuel mr (HGc roots) <> None.
  Proof. exact (gc_step_returns nhash khash bmask cmask0 smask0 capacity cap_ok mr roots rl). Qed.
End C05.

Print Assumptions C05_gc.
Print Assumptions C05_meaning_preserved.
Print Assumptions C05_after_gc_reachable.
Print Assumptions C05_still_canonical.
Print Assumptions C05_gc_returns.
