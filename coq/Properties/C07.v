(* C07 — Memoisation is invisible: results never depend on cache state or size
   Only property theorems, each closed by quoting lemmas proved elsewhere, and Print Assumptions.
   Generated from Properties/bodies/C07.v.in by mkprop.py (shared preamble: hdr.txt, sec.txt). *)
From Coq Require Import Arith NArith Bool List Lia.
Require Import Canon SemTk CountTk TableProto BddBase BddIte BddCR BddSat BddCof BddCof2 BddCtor BddEval BddPaths BddPathsCount BddReach BddExport BddDot BddMinimal BddTerm BddTerm2 Glue Machine Reachable OpSpecs FuelMono FuelMono2 SpecCor BddBracketText.
Import ListNotations.
Local Open Scope N_scope.

Section C07.
  Variable nhash : node -> N.            (* any node hash: every collision pattern of the unique table *)
  Variable khash : key -> N.             (* any operation-cache hash *)
  Variable bmask cmask0 smask0 capacity : N.   (* any bucket count, cache sizes, capacity *)
  Hypothesis cap_ok : 2 <= capacity.
  Context {MS : Memo ref ref} {MC : Memo (ref * ref) ref} {MQ : Memo (nat * ref) ref} {MN : Memo ref N}.  (* any memo tables *)
  Local Instance pops : StoreOps := concrete_ops nhash khash.
  Local Instance pok : StoreOK := concrete_ok nhash khash.
  Notation reachable := (@reachable nhash khash bmask cmask0 smask0 capacity MS MC MQ MN).
  Notation mstep := (@mstep nhash khash MS MC MQ MN).
  Notation denotes := (denotes nhash khash).
  Notation denotes_in := (denotes_in nhash khash).
  Notation frame := (frame nhash khash).

  (* every entry either cache holds is a true fact about live nodes, in every reachable state (any cache size, any
     collisions: the key hash and both masks are arbitrary) *)
  Theorem C07_op_cache_entries_true mr k r : reachable mr -> cache_get khash (opc (store mr)) k = Some r -> EntryOK (store mr) k r.
  Proof. intros HR. destruct (reachable_good nhash khash _ _ _ _ cap_ok _ HR) as (_ & HC & _). exact (HC k r). Qed.
  Theorem C07_size_cache_entries_true mr r n : reachable mr -> sc_get (szc (fst mr)) r = Some n ->
    (exists t, V (store mr) r t) /\
    exists l, NoDup l /\ (forall j, In j l <-> j = 1 \/ Reach (store mr) (idx r) j) /\ n = N.of_nat (length l).
  Proof. intros HR. destruct (reachable_good nhash khash _ _ _ _ cap_ok _ HR) as (_ & _ & HS & _). exact (HS r n). Qed.
  (* no entry survives a collection *)
  Theorem C07_gc_empties mr roots rl fuel mr' x :
    reachable mr -> fetch_all (snd mr) roots = Some rl -> mstep fuel mr (HGc roots) = Some (mr', x) ->
    (forall k, cache_get khash (opc (store mr')) k = None) /\ (forall r, sc_get (szc (fst mr')) r = None).
  Proof.
    intros HR Fl Hs. destruct (gc_step_spec nhash khash bmask cmask0 smask0 capacity cap_ok mr roots rl fuel mr' x HR Fl Hs) as (vis & _ & _ & _ & _ & _ & _ & H1 & H2). auto.
  Qed.
  (* the function: C02 and C08-C11 hold in every reachable state, whatever the caches contain.  The handle: repeating
     an if-then-else in any later state of the manager in which the first result is still live (any cache contents in
     between: warm, flushed by unrelated insertions, evicted) returns the identical handle *)
  Theorem C07_repeat_same_handle mr1 mr1' mr2 mr3 f g h rf rg rh F G H fuel fuel' x1 x2 r1 r2 :
    reachable mr1 -> liveh mr1 f rf -> liveh mr1 g rg -> liveh mr1 h rh ->
    denotes mr1 rf F -> denotes mr1 rg G -> denotes mr1 rh H ->
    mstep fuel mr1 (HIte f g h) = Some (mr1', x1) -> x1 = OReg r1 ->
    reachable mr2 -> frame mr1' mr2 ->
    mstep fuel' mr2 (HIte f g h) = Some (mr3, x2) -> x2 = OReg r2 -> r2 = r1.
  Proof.
    intros HR1 Lf Lg Lh DF DG DH S1 -> HR2 Fr S2 ->.
    destruct (ite_step_spec nhash khash bmask cmask0 smask0 capacity cap_ok _ _ _ _ _ _ _ _ _ _ _ _ _ HR1 Lf Lg Lh DF DG DH S1) as (r & E1 & _ & Fr1 & D1).
    injection E1 as <-.
    assert (L2 : forall a r0 F0, liveh mr1 a r0 -> denotes mr1 r0 F0 -> liveh mr2 a r0 /\ denotes mr2 r0 F0).
    { intros a r0 F0 HL HD. destruct (Fr1 _ _ HL) as [HL1 HD1]. destruct (Fr _ _ HL1) as [HL2 HD2]. split; [exact HL2|apply HD2, HD1, HD]. }
    destruct (L2 _ _ _ Lf DF) as [Lf2 DF2]. destruct (L2 _ _ _ Lg DG) as [Lg2 DG2]. destruct (L2 _ _ _ Lh DH) as [Lh2 DH2].
    destruct (ite_step_spec nhash khash bmask cmask0 smask0 capacity cap_ok _ _ _ _ _ _ _ _ _ _ _ _ _ HR2 Lf2 Lg2 Lh2 DF2 DG2 DH2 S2) as (r' & E2 & N2 & Fr2 & D2).
    injection E2 as <-.
    (* r1 is live in mr1' (it is the new register), hence in mr2 and mr3, with the same meaning *)
    assert (HL1 : liveh mr1' (length (snd mr1), false) r1).
    { destruct (ite_step_spec nhash khash bmask cmask0 smask0 capacity cap_ok _ _ _ _ _ _ _ _ _ _ _ _ _ HR1 Lf Lg Lh DF DG DH S1) as (r & E1 & N1 & _). injection E1 as <-.
      unfold liveh, fetch, newreg in *. rewrite N1. cbn [fst snd]. rewrite nth_error_app2, Nat.sub_diag by apply le_n. reflexivity. }
    destruct (Fr _ _ HL1) as [HLa HDa]. destruct (Fr2 _ _ HLa) as [HLb HDb].
    assert (HR3 : reachable mr3) by (econstructor; eauto).
    destruct (reachable_good nhash khash _ _ _ _ cap_ok _ HR3) as (HI & _).
    destruct (HDb _ (HDa _ D1)) as (ta & Va & Sa). destruct D2 as (tb & Vb & Sb).
    symmetry. apply (handle_eq_iff _ _ _ _ _ HI Va Vb). intro e. now rewrite Sa, Sb.
  Qed.
  (* whatever two managers (different cache sizes, bucket counts, hash functions, histories) hold, equal argument
     functions give equal result functions: the result function is determined by C02's statement alone *)
  Theorem C07_function_independent_of_configuration
    nhash2 khash2 bmask2 cmask2 smask2 capacity2 (cap_ok2 : 2 <= capacity2)
    mr f g h rf rg rh mr2 f2 g2 h2 rf2 rg2 rh2 F G H fuel fuel2 mr' mr2' x x2 :
    reachable mr -> liveh mr f rf -> liveh mr g rg -> liveh mr h rh -> denotes mr rf F -> denotes mr rg G -> denotes mr rh H ->
    @Reachable.reachable nhash2 khash2 bmask2 cmask2 smask2 capacity2 MS MC MQ MN mr2 ->
    liveh mr2 f2 rf2 -> liveh mr2 g2 rg2 -> liveh mr2 h2 rh2 ->
    Reachable.denotes nhash2 khash2 mr2 rf2 F -> Reachable.denotes nhash2 khash2 mr2 rg2 G -> Reachable.denotes nhash2 khash2 mr2 rh2 H ->
    mstep fuel mr (HIte f g h) = Some (mr', x) -> @Reachable.mstep nhash2 khash2 MS MC MQ MN fuel2 mr2 (HIte f2 g2 h2) = Some (mr2', x2) ->
    exists r r2 D, x = OReg r /\ x2 = OReg r2 /\ denotes mr' r D /\ Reachable.denotes nhash2 khash2 mr2' r2 D.
  Proof.
    intros HR Lf Lg Lh DF DG DH HR2 Lf2 Lg2 Lh2 DF2 DG2 DH2 S1 S2.
    destruct (ite_step_spec nhash khash bmask cmask0 smask0 capacity cap_ok _ _ _ _ _ _ _ _ _ _ _ _ _ HR Lf Lg Lh DF DG DH S1) as (r & E1 & _ & _ & D1).
    destruct (ite_step_spec nhash2 khash2 bmask2 cmask2 smask2 capacity2 cap_ok2 _ _ _ _ _ _ _ _ _ _ _ _ _ HR2 Lf2 Lg2 Lh2 DF2 DG2 DH2 S2) as (r2 & E2 & _ & _ & D2).
    exists r, r2, (fun e => if F e then G e else H e). auto.
  Qed.
  (* the general form, for EVERY operation: if a result handle r1 is live in a state and an operation performed in any later
     state of the manager (any cache contents in between) returns a handle denoting the same function, it returns r1 itself *)
  Theorem C07_same_function_same_handle mr a r1 r2 D : reachable mr -> liveh mr a r1 -> denotes mr r1 D -> denotes mr r2 D -> r2 = r1.
  Proof.
    intros HR _ (t1 & V1 & S1) (t2 & V2 & S2). destruct (reachable_good nhash khash _ _ _ _ cap_ok _ HR) as (HI & _).
    apply (handle_eq_iff _ _ _ _ _ HI V2 V1). intro e. now rewrite S1, S2.
  Qed.
End C07.

Print Assumptions C07_op_cache_entries_true.
Print Assumptions C07_size_cache_entries_true.
Print Assumptions C07_gc_empties.
Print Assumptions C07_repeat_same_handle.
Print Assumptions C07_function_independent_of_configuration.
Print Assumptions C07_same_function_same_handle.
