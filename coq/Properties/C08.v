(* C08 — Cofactor and substitution operations fix variables and nothing else
   Only property theorems, each closed by quoting lemmas proved elsewhere, and Print Assumptions.
   Generated from Properties/bodies/C08.v.in by mkprop.py (shared preamble: hdr.txt, sec.txt). *)
From Coq Require Import Arith NArith Bool List Lia.
Require Import Canon SemTk CountTk TableProto BddBase BddIte BddCR BddSat BddCof BddCof2 BddCtor BddEval BddPaths BddPathsCount BddReach BddExport BddDot BddMinimal BddTerm BddTerm2 Glue Machine Reachable OpSpecs FuelMono FuelMono2 SpecCor BddBracketText.
Import ListNotations.
Local Open Scope N_scope.

Section C08.
  Variable nhash : node -> N.            (* any node hash: every collision pattern of the unique table *)
  Variable khash : key -> N.             (* any operation-cache hash *)
  Variable bmask cmask0 smask0 capacity : N.   (* any bucket count, cache sizes, capacity *)
  Hypothesis cap_ok : 2 <= capacity.
  Context {MS : Memo ref ref} {MC : Memo (ref * ref) ref} {MQ : Memo (nat * ref) ref} {MN : Memo ref N}.  (* any memo tables *)
  Local Instance pops : StoreOps := concrete_ops nhash khash.
  Local Instance pok : StoreOK := concrete_ok nhash khash.
  Notation reachable := (@reachable nhash khash bmask cmask0 smask0 capacity MS MC MQ MN).
  Notation mstep := (@mstep nhash khash MS MC MQ MN).
  Notation denotes := (denotes nhash khash).
  Notation denotes_in := (denotes_in nhash khash).
  Notation frame := (frame nhash khash).

  Theorem C08_substitute mr f rf F v b fuel mr' x :
    reachable mr -> liveh mr f rf -> denotes mr rf F -> 0 < v -> mstep fuel mr (HSubst f v b) = Some (mr', x) ->
    exists r, x = OReg r /\ newreg mr mr' r /\ frame mr mr' /\ denotes mr' r (fun e => F (upd e v b)).
  Proof. exact (subst_step_spec nhash khash bmask cmask0 smask0 capacity cap_ok mr f rf F v b fuel mr' x). Qed.
  Theorem C08_substitute_multi mr f rf F vals fuel mr' x :
    reachable mr -> liveh mr f rf -> denotes mr rf F -> nodupb (map fst vals) = true ->
    mstep fuel mr (HSubstM f vals) = Some (mr', x) ->
    exists r, x = OReg r /\ newreg mr mr' r /\ frame mr mr' /\ denotes mr' r (fun e => F (override e vals)).
  Proof. exact (substm_step_spec nhash khash bmask cmask0 smask0 capacity cap_ok mr f rf F vals fuel mr' x). Qed.
  Theorem C08_cofactor_cube mr f rf F cube fuel mr' x :
    reachable mr -> liveh mr f rf -> denotes mr rf F -> asc_cubeb 0 cube = true ->
    mstep fuel mr (HCofCube f cube) = Some (mr', x) ->
    exists r, x = OReg r /\ newreg mr mr' r /\ frame mr mr' /\ denotes mr' r (fun e => F (override e cube)).
  Proof. exact (cofcube_step_spec nhash khash bmask cmask0 smask0 capacity cap_ok mr f rf F cube fuel mr' x). Qed.
  (* the three entry points agree: fixing one variable through any of them gives the same function, hence (C01) the
     same handle; the result no longer depends on the variable *)
  Theorem C08_entry_points_agree e v b : forall w, override e [(v, b)] w = upd e v b w.
  Proof. intro w. unfold override, upd. cbn [vget]. destruct (N.eqb w v); reflexivity. Qed.
  Theorem C08_result_independent (F : bfun) v b : ext F -> indep (fun e => F (upd e v b)) v.
  Proof. intros HF e c. apply HF. apply upd_upd_same. Qed.
  Theorem C08_unchanged_when_independent (F : bfun) v b : indep F v -> forall e, F (upd e v b) = F e.
  Proof. intros HI e. apply HI. Qed.
  (* the else / then accessors are the cofactors with respect to the top variable, complement bit included *)
  Theorem C08_accessors mr (hi : bool) f rf F fuel mr' x :
    reachable mr -> liveh mr f rf -> denotes mr rf F -> idx rf <> 1 ->
    mstep fuel mr (if hi then HHigh f else HLow f) = Some (mr', x) ->
    exists r, x = OReg r /\ newreg mr mr' r /\ frame mr mr' /\ store mr' = store mr /\
      let v := top (store mr) rf in 0 < v /\ denotes mr' r (fun e => F (upd e v hi)).
  Proof. exact (lowhigh_step_spec nhash khash bmask cmask0 smask0 capacity cap_ok mr hi f rf F fuel mr' x). Qed.
  (* top_cofactors(f, v) for v not below f's top variable: the two cofactors with respect to v *)
  Theorem C08_top_cofactors mr (hi : bool) f rf F v fuel mr' x :
    reachable mr -> liveh mr f rf -> denotes mr rf F -> 0 < v -> (idx rf = 1 \/ v <= top (store mr) rf) ->
    mstep fuel mr (HTopCof hi f v) = Some (mr', x) ->
    exists r, x = OReg r /\ newreg mr mr' r /\ frame mr mr' /\ store mr' = store mr /\ denotes mr' r (fun e => F (upd e v hi)).
  Proof. exact (topcof_step_spec nhash khash bmask cmask0 smask0 capacity cap_ok mr hi f rf F v fuel mr' x). Qed.
  (* termination of substitute: with fuel above the height of the diagram, no result ONLY IF the node table filled up *)
  Theorem C08_substitute_fuel_bound mr f rf v b :
    reachable mr -> liveh mr f rf ->
    exists bound, forall fuel, (bound <= fuel)%nat -> mstep fuel mr (HSubst f v b) = None ->
      exists s', sext (store mr) s' /\ Inv s' /\ storage_full node (tbl s').
  Proof. exact (subst_step_fuel_bound nhash khash bmask cmask0 smask0 capacity cap_ok mr f rf v b). Qed.
  Theorem C08_substitute_multi_fuel_bound mr f rf vals :
    reachable mr -> liveh mr f rf ->
    exists bound, forall fuel, (bound <= fuel)%nat -> mstep fuel mr (HSubstM f vals) = None ->
      exists s', sext (store mr) s' /\ Inv s' /\ storage_full node (tbl s').
  Proof. exact (substm_step_fuel_bound nhash khash bmask cmask0 smask0 capacity cap_ok mr f rf vals). Qed.
  Theorem C08_cofactor_cube_fuel_bound mr f rf cube :
    reachable mr -> liveh mr f rf ->
    exists bound, forall fuel, (bound <= fuel)%nat -> mstep fuel mr (HCofCube f cube) = None ->
      exists s', sext (store mr) s' /\ Inv s' /\ storage_full node (tbl s').
  Proof. exact (cofcube_step_fuel_bound nhash khash bmask cmask0 smask0 capacity cap_ok mr f rf cube). Qed.
End C08.

Print Assumptions C08_substitute.
Print Assumptions C08_substitute_multi.
Print Assumptions C08_cofactor_cube.
Print Assumptions C08_entry_points_agree.
Print Assumptions C08_result_independent.
Print Assumptions C08_unchanged_when_independent.
Print Assumptions C08_accessors.
Print Assumptions C08_top_cofactors.
Print Assumptions C08_substitute_fuel_bound.
Print Assumptions C08_substitute_multi_fuel_bound.
Print Assumptions C08_cofactor_cube_fuel_bound.
