(* C11 — restrict simplifies f on a care set without adding variables
   Only property theorems, each closed by quoting lemmas proved elsewhere, and Print Assumptions.
   Generated from Properties/bodies/C11.v.in by mkprop.py (shared preamble: hdr.txt, sec.txt). *)
From Coq Require Import Arith NArith Bool List Lia.
Require Import Canon SemTk CountTk TableProto BddBase BddIte BddCR BddSat BddCof BddCof2 BddCtor BddEval BddPaths BddPathsCount BddReach BddExport BddDot BddMinimal BddTerm BddTerm2 Glue Machine Reachable OpSpecs FuelMono FuelMono2 SpecCor BddBracketText.
Import ListNotations.
Local Open Scope N_scope.

Section C11.
  Variable nhash : node -> N.            (* any node hash: every collision pattern of the unique table *)
  Variable khash : key -> N.             (* any operation-cache hash *)
  Variable bmask cmask0 smask0 capacity : N.   (* any bucket count, cache sizes, capacity *)
  Hypothesis cap_ok : 2 <= capacity.
  Context {MS : Memo ref ref} {MC : Memo (ref * ref) ref} {MQ : Memo (nat * ref) ref} {MN : Memo ref N}.  (* any memo tables *)
  Local Instance pops : StoreOps := concrete_ops nhash khash.
  Local Instance pok : StoreOK := concrete_ok nhash khash.
  Notation reachable := (@reachable nhash khash bmask cmask0 smask0 capacity MS MC MQ MN).
  Notation mstep := (@mstep nhash khash MS MC MQ MN).
  Notation denotes := (denotes nhash khash).
  Notation denotes_in := (denotes_in nhash khash).
  Notation frame := (frame nhash khash).

  (* the result denotes the shortcut-free Coudert-Madre recursion (sibling substitution where a cofactor of g is
     unsatisfiable, existential abstraction of care-set variables f does not depend on) over any ascending variable list
     covering both diagrams; its diagram mentions only variables of f's diagram *)
  Theorem C11_restrict mr f g rf rg F G vs fuel mr' x :
    reachable mr -> liveh mr f rf -> liveh mr g rg -> denotes_in mr vs rf F -> denotes_in mr vs rg G -> asc 0 vs ->
    mstep fuel mr (HRestrict f g) = Some (mr', x) ->
    exists r, x = OReg r /\ newreg mr mr' r /\ frame mr mr' /\
      exists tf tg tr, V (store mr) rf tf /\ V (store mr) rg tg /\ V (store mr') r tr /\
        (forall e, rsem r tr e = restrict_spec vs (rsem rf tf) (rsem rg tg) e) /\
        (forall ws, tvars_in ws tf -> tvars_in ws tr).
  Proof. exact (restrict_step_spec nhash khash bmask cmask0 smask0 capacity cap_ok mr f g rf rg F G vs fuel mr' x). Qed.
  (* agrees with f wherever g holds *)
  Theorem C11_agrees_on_care_set vs (F G : bfun) e : ext F -> ext G -> G e = true -> unsat vs G e = false ->
    restrict_spec vs F G e = F e.
  Proof. intros HF HG Hg Hu. unfold restrict_spec. rewrite Hu. apply rspec_care; assumption. Qed.
  (* g implies f: 1 ; g implies NOT f: 0 (through negation) ; constant f: f ; g false: false *)
  Theorem C11_one_when_g_implies_f vs (F G : bfun) e : ext F -> ext G -> NoDup vs ->
    (forall a, (forall w, ~ In w vs -> a w = e w) -> G a = true -> F a = true) -> unsat vs G e = false ->
    restrict_spec vs F G e = true.
  Proof. intros HF HG Hnd Himp Hu. unfold restrict_spec. rewrite Hu. apply rspec_imp; assumption. Qed.
  Theorem C11_commutes_with_negation vs (F G : bfun) e : unsat vs G e = false ->
    restrict_spec vs (fun a => negb (F a)) G e = negb (restrict_spec vs F G e).
  Proof. intro Hu. unfold restrict_spec. rewrite Hu. apply rspec_neg. Qed.
  Theorem C11_constant_f vs (F G : bfun) e c : (forall a, F a = c) -> unsat vs G e = false -> restrict_spec vs F G e = c.
  Proof. intros HF Hu. unfold restrict_spec. rewrite Hu. apply rspec_const. exact HF. Qed.
  Theorem C11_false_care_set vs (F : bfun) e : restrict_spec vs F (fun _ => false) e = false.
  Proof. unfold restrict_spec. replace (unsat vs (fun _ => false) e) with true; [reflexivity|]. symmetry. unfold unsat. apply forallb_forall. reflexivity. Qed.
  (* termination: for every reachable state and live handles there is a fuel bound (a multiple of the number of variable
     levels) from which on the step yields no result ONLY IF the node table filled up on the way ("Storage is full") *)
  Theorem C11_restrict_fuel_bound mr f g rf rg :
    reachable mr -> liveh mr f rf -> liveh mr g rg ->
    exists bound, forall fuel, (bound <= fuel)%nat -> mstep fuel mr (HRestrict f g) = None ->
      exists s', sext (store mr) s' /\ Inv s' /\ storage_full node (tbl s').
  Proof. exact (restrict_step_fuel_bound nhash khash bmask cmask0 smask0 capacity cap_ok mr f g rf rg). Qed.
  (* the remaining named cases, on the specification: restrict(f,1) = f, 0 when g implies NOT f, and restrict by a cube is
     the plain cofactor *)
  Theorem C11_true_care_set vs (F : bfun) e : ext F -> restrict_spec vs F (fun _ => true) e = F e.
  Proof. exact (restrict_true vs F e). Qed.
  Theorem C11_zero_when_g_implies_not_f vs (F G : bfun) e : ext F -> ext G -> NoDup vs ->
    (forall a, (forall w, ~ In w vs -> a w = e w) -> G a = true -> F a = false) -> unsat vs G e = false ->
    restrict_spec vs F G e = false.
  Proof. exact (restrict_zero_when_g_implies_not_f vs F G e). Qed.
  Theorem C11_cube_is_cofactor vs (F : bfun) lits e : ext F -> NoDup vs -> NoDup (map fst lits) ->
    (forall v, In v (map fst lits) -> In v vs) -> restrict_spec vs F (cubef lits) e = F (override e lits).
  Proof. exact (restrict_cube vs F lits e). Qed.
  (* restrict(f, g) depends only on variables f depends on: when the care set is determined by the listed variables and f
     does not depend on w, neither does the result (on the specification; the diagram-level statement is in C11_restrict) *)
  Theorem C11_support vs (F G : bfun) w : ext F -> supp_in vs G -> NoDup vs -> indep F w -> indep (restrict_spec vs F G) w.
  Proof. exact (restrict_support vs F G w). Qed.
End C11.

Print Assumptions C11_restrict.
Print Assumptions C11_agrees_on_care_set.
Print Assumptions C11_one_when_g_implies_f.
Print Assumptions C11_commutes_with_negation.
Print Assumptions C11_constant_f.
Print Assumptions C11_false_care_set.
Print Assumptions C11_restrict_fuel_bound.
Print Assumptions C11_true_care_set.
Print Assumptions C11_zero_when_g_implies_not_f.
Print Assumptions C11_cube_is_cofactor.
Print Assumptions C11_support.
