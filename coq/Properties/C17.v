(* C17 — The unique table is a sound hash-consing store under every put/collect history.
   Only property theorems, each closed by quoting lemmas proved elsewhere (TableProto.v), and Print Assumptions. *)
From Coq Require Import Arith NArith Bool List Lia.
Require Import Canon SemTk TableProto Standalone StandaloneProofs.
Import ListNotations.
Local Open Scope N_scope.

Section C17.
  Variable V : Type.                          (* any value type *)
  Variable veqb : V -> V -> bool.
  Hypothesis veqb_spec : forall a b, reflect (a = b) (veqb a b).
  Variable hash : V -> N.                     (* any hash function: every collision pattern, every chain shape *)
  Variable pin : N -> bool.                   (* cells allocated directly and never chained (the BDD terminal) *)

  (* every history of insertions / lookups (put) and collections with arbitrary survivor predicates, from any table
     satisfying the invariant (in particular a new one), for any bucket count and capacity: the allocation invariant
     (cell 0 sentinel, 1 <= min_free <= last_index+1 <= cap, all cells below min_free occupied, none above last_index,
     real_size = number of occupied cells) and the chain invariant (every bucket head starts an acyclic duplicate-free
     chain of occupied cells whose hash selects that bucket; every occupied unpinned cell is in the chain of its own
     hash; distinct cells hold distinct values) hold in every reachable table *)
  Theorem C17_every_history fuel : forall h t t', AInv t -> TableProto.CInv V hash pin t ->
    trun V veqb hash fuel t h = Ok t' -> AInv t' /\ TableProto.CInv V hash pin t'.
  Proof. exact (table_history V veqb veqb_spec hash pin fuel). Qed.

  (* put v returns the index of the one live cell holding v, allocating only if there is none: either the table is
     unchanged and i already held v, or i was free, no chained cell held v, every other cell is untouched, the live
     count grows by one and every cell below i was occupied (lowest free cell); never index 0, never a live cell *)
  Theorem C17_put fuel t v t' i : AInv t -> TableProto.CInv V hash pin t -> put V veqb hash fuel t v = Ok (t', i) ->
    AInv t' /\ TableProto.CInv V hash pin t' /\ val t' i = v /\ chained V pin t' i /\ nb t' = nb t /\ cap t' = cap t /\
    ((t' = t /\ chained V pin t i) \/
     (~ occupied t i /\ (forall j, chained V pin t j -> val t j <> v) /\
      (forall j, j <> i -> (occupied t' j <-> occupied t j) /\ val t' j = val t j) /\
      real_size t' = real_size t + 1 /\ last_index t' = N.max (last_index t) i /\
      (forall j, 1 <= j < i -> occupied t j))).
  Proof. exact (put_ok V veqb veqb_spec hash pin fuel t v t' i). Qed.
  Theorem C17_distinct_values_distinct_cells t i j : TableProto.CInv V hash pin t ->
    chained V pin t i -> chained V pin t j -> val t i = val t j -> i = j.
  Proof. intro HC. exact (c_uniq V hash pin t HC i j). Qed.
  (* the chain walk cannot run out of fuel once fuel >= capacity: put fails only with "Storage is full" *)
  Theorem C17_put_never_stuck fuel t v : AInv t -> TableProto.CInv V hash pin t -> (N.to_nat (cap t) <= fuel)%nat ->
    put V veqb hash fuel t v <> Fuel.
  Proof. exact (put_no_fuel V veqb hash pin fuel t v). Qed.
  (* a collection: values never move, exactly the chained cells the predicate rejects are freed (dead head, dead runs,
     dead tail, everything dead: any predicate), chains stay acyclic and contain no freed cell *)
  Theorem C17_collect fuel t alive t' : AInv t -> TableProto.CInv V hash pin t ->
    sweep_all V alive fuel t (bucket_range V t) = Ok t' ->
    AInv t' /\ TableProto.CInv V hash pin t' /\ (forall j, val t' j = val t j) /\
    (forall j, occupied t' j <-> occupied t j /\ (chained V pin t j -> alive j = true)) /\ nb t' = nb t /\ cap t' = cap t.
  Proof. exact (sweep_ok V hash pin fuel t alive t'). Qed.
  (* ... and a collection always completes once fuel >= capacity: it never reports Full and never runs out of fuel,
     whatever the survivor predicate *)
  Theorem C17_collect_never_stuck fuel t alive : AInv t -> TableProto.CInv V hash pin t -> (N.to_nat (cap t) <= fuel)%nat ->
    exists t', sweep_all V alive fuel t (bucket_range V t) = Ok t'.
  Proof. exact (sweep_total V hash pin fuel t alive). Qed.
End C17.

(* non-vacuity: the table created by Table::new / with_buckets (any size) satisfies both invariants, for any hash *)
Theorem C17_new_table_ok (hash : N -> N) bits bb : 1 <= 2 ^ bits ->
  AInv (tbl_new bits bb) /\ TableProto.CInv N hash nopin (tbl_new bits bb).
Proof. exact (tbl_new_inv hash bits bb). Qed.

Print Assumptions C17_every_history.
Print Assumptions C17_put.
Print Assumptions C17_distinct_values_distinct_cells.
Print Assumptions C17_put_never_stuck.
Print Assumptions C17_collect.
Print Assumptions C17_collect_never_stuck.
Print Assumptions C17_new_table_ok.
