(* C14 — one_sat and paths describe exactly the satisfying set
   Only property theorems, each closed by quoting lemmas proved elsewhere, and Print Assumptions.
   Generated from Properties/bodies/C14.v.in by mkprop.py (shared preamble: hdr.txt, sec.txt). *)
From Coq Require Import Arith NArith Bool List Lia.
Require Import Canon SemTk CountTk TableProto BddBase BddIte BddCR BddSat BddCof BddCof2 BddCtor BddEval BddPaths BddPathsCount BddReach BddExport BddDot BddMinimal BddTerm BddTerm2 Glue Machine Reachable OpSpecs FuelMono FuelMono2 SpecCor BddBracketText.
Import ListNotations.
Local Open Scope N_scope.

Section C14.
  Variable nhash : node -> N.            (* any node hash: every collision pattern of the unique table *)
  Variable khash : key -> N.             (* any operation-cache hash *)
  Variable bmask cmask0 smask0 capacity : N.   (* any bucket count, cache sizes, capacity *)
  Hypothesis cap_ok : 2 <= capacity.
  Context {MS : Memo ref ref} {MC : Memo (ref * ref) ref} {MQ : Memo (nat * ref) ref} {MN : Memo ref N}.  (* any memo tables *)
  Local Instance pops : StoreOps := concrete_ops nhash khash.
  Local Instance pok : StoreOK := concrete_ok nhash khash.
  Notation reachable := (@reachable nhash khash bmask cmask0 smask0 capacity MS MC MQ MN).
  Notation mstep := (@mstep nhash khash MS MC MQ MN).
  Notation denotes := (denotes nhash khash).
  Notation denotes_in := (denotes_in nhash khash).
  Notation frame := (frame nhash khash).

  Theorem C14_one_sat mr f rf F fuel mr' x :
    reachable mr -> liveh mr f rf -> denotes mr rf F -> mstep fuel mr (HOneSat f) = Some (mr', x) ->
    mr' = mr /\ exists o, x = OPath o /\
      match o with
      | None => rf = zero /\ forall e, F e = false
      | Some p => incr 0 p /\ forall e, sat e p = true -> F e = true
      end.
  Proof. exact (onesat_step_spec nhash khash bmask cmask0 smask0 capacity cap_ok mr f rf F fuel mr' x). Qed.
  (* paths: strictly increasing cubes; every assignment satisfies exactly one path if it satisfies f and none otherwise
     (pairwise disjoint, union = f, each exactly once); the weights 2^(n-|p|) sum to the number of models *)
  Theorem C14_paths mr f rf F fuel mr' x :
    reachable mr -> liveh mr f rf -> denotes mr rf F -> mstep fuel mr (HPaths f) = Some (mr', x) ->
    mr' = mr /\ exists ps, x = OPaths ps /\
      (forall p, In p ps -> incr 0 p) /\
      (forall e, length (filter (sat e) ps) = if F e then 1%nat else 0%nat) /\
      (forall vs e0, NoDup vs -> (forall p, In p ps -> NoDup (map fst p) /\ forall y, In y p -> In (fst y) vs) ->
         CountTk.cnt vs F e0 = sumn (map (fun p => Nat.pow 2 (length vs - length p)) ps)).
  Proof. exact (paths_step_spec nhash khash bmask cmask0 smask0 capacity cap_ok mr f rf F fuel mr' x). Qed.
  (* one_sat and the paths iterator always return (fuel above the height, resp. above the tree size of the diagram: the
     iterator's own running time), leaving the state unchanged *)
  Theorem C14_one_sat_returns mr f rf : reachable mr -> liveh mr f rf ->
    exists bound, forall fuel, (bound <= fuel)%nat -> exists p, mstep fuel mr (HOneSat f) = Some (mr, OPath p).
  Proof. exact (onesat_step_returns nhash khash bmask cmask0 smask0 capacity cap_ok mr f rf). Qed.
  Theorem C14_paths_returns mr f rf : reachable mr -> liveh mr f rf ->
    exists bound, forall fuel, (bound <= fuel)%nat -> exists ps, mstep fuel mr (HPaths f) = Some (mr, OPaths ps).
  Proof. exact (paths_step_returns nhash khash bmask cmask0 smask0 capacity cap_ok mr f rf). Qed.
End C14.

Print Assumptions C14_one_sat.
Print Assumptions C14_paths.
Print Assumptions C14_one_sat_returns.
Print Assumptions C14_paths_returns.
