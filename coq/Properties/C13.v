(* C13 — sat_count is the exact number of satisfying assignments
   Only property theorems, each closed by quoting lemmas proved elsewhere, and Print Assumptions.
   Generated from Properties/bodies/C13.v.in by mkprop.py (shared preamble: hdr.txt, sec.txt). *)
From Coq Require Import Arith NArith Bool List Lia.
Require Import Canon SemTk CountTk TableProto BddBase BddIte BddCR BddSat BddCof BddCof2 BddCtor BddEval BddPaths BddPathsCount BddReach BddExport BddDot BddMinimal BddTerm BddTerm2 Glue Machine Reachable OpSpecs FuelMono FuelMono2 SpecCor BddBracketText.
Import ListNotations.
Local Open Scope N_scope.

Section C13.
  Variable nhash : node -> N.            (* any node hash: every collision pattern of the unique table *)
  Variable khash : key -> N.             (* any operation-cache hash *)
  Variable bmask cmask0 smask0 capacity : N.   (* any bucket count, cache sizes, capacity *)
  Hypothesis cap_ok : 2 <= capacity.
  Context {MS : Memo ref ref} {MC : Memo (ref * ref) ref} {MQ : Memo (nat * ref) ref} {MN : Memo ref N}.  (* any memo tables *)
  Local Instance pops : StoreOps := concrete_ops nhash khash.
  Local Instance pok : StoreOK := concrete_ok nhash khash.
  Notation reachable := (@reachable nhash khash bmask cmask0 smask0 capacity MS MC MQ MN).
  Notation mstep := (@mstep nhash khash MS MC MQ MN).
  Notation denotes := (denotes nhash khash).
  Notation denotes_in := (denotes_in nhash khash).
  Notation frame := (frame nhash khash).

  (* for f whose variables lie in 1..n: sat_count(f, n) is exactly the number of assignments to x1..xn satisfying f
     (arbitrary precision: N), for every per-call memo implementation, complemented or not *)
  Theorem C13_sat_count mr f rf F n fuel mr' x :
    reachable mr -> liveh mr f rf -> denotes_in mr (upto n) rf F ->
    mstep fuel mr (HSatCount f (N.of_nat n)) = Some (mr', x) ->
    mr' = mr /\ x = ONum (count (upto n) F).
  Proof. exact (satcount_step_spec nhash khash bmask cmask0 smask0 capacity cap_ok mr f rf F n fuel mr' x). Qed.
  (* consequences of exactness *)
  Theorem C13_complement vs (F : bfun) : count vs (fun a => negb (F a)) = 2 ^ N.of_nat (length vs) - count vs F.
  Proof. exact (count_neg vs F). Qed.
  Theorem C13_length_upto n : length (upto n) = n.
  Proof. unfold upto. now rewrite map_length, seq_length. Qed.
  Theorem C13_true_counts_all vs : count vs (fun _ => true) = 2 ^ N.of_nat (length vs).
  Proof. exact (count_const_true vs). Qed.
  Theorem C13_inclusion_exclusion vs (F G : bfun) :
    (count vs (fun a => F a || G a) + count vs (fun a => F a && G a) = count vs F + count vs G)%N.
  Proof.
    unfold count, CountTk.cnt. generalize (assigns vs (fun _ => false)). intro l.
    rewrite <- !Nnat.Nat2N.inj_add. f_equal.
    induction l as [|a l IH]; cbn [filter]; [reflexivity|].
    destruct (F a), (G a); cbn [orb andb length]; lia.
  Qed.
  (* adding an unused variable doubles the count *)
  Theorem C13_unused_variable_doubles n (F : bfun) : ext F -> indep F (N.of_nat (S n)) ->
    count (upto (S n)) F = 2 * count (upto n) F.
  Proof.
    intros HF HI. unfold upto. rewrite seq_S, map_app. cbn [map]. change (1 + n)%nat with (S n).
    exact (count_snoc_indep (map N.of_nat (List.seq 1 n)) F (N.of_nat (S n)) HF HI).
  Qed.
  (* sat_count always returns: it allocates nothing; fuel above the height of the diagram suffices, in every reachable state *)
  Theorem C13_sat_count_returns mr f rf n : reachable mr -> liveh mr f rf ->
    exists bound, forall fuel, (bound <= fuel)%nat -> exists c, mstep fuel mr (HSatCount f n) = Some (mr, ONum c).
  Proof. exact (satcount_step_returns nhash khash bmask cmask0 smask0 capacity cap_ok mr f rf n). Qed.
End C13.

Print Assumptions C13_sat_count.
Print Assumptions C13_complement.
Print Assumptions C13_length_upto.
Print Assumptions C13_true_counts_all.
Print Assumptions C13_inclusion_exclusion.
Print Assumptions C13_unused_variable_doubles.
Print Assumptions C13_sat_count_returns.
