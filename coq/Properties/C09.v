(* C09 — Composition substitutes a function for a variable
   Only property theorems, each closed by quoting lemmas proved elsewhere, and Print Assumptions.
   Generated from Properties/bodies/C09.v.in by mkprop.py (shared preamble: hdr.txt, sec.txt). *)
From Coq Require Import Arith NArith Bool List Lia.
Require Import Canon SemTk CountTk TableProto BddBase BddIte BddCR BddSat BddCof BddCof2 BddCtor BddEval BddPaths BddPathsCount BddReach BddExport BddDot BddMinimal BddTerm BddTerm2 Glue Machine Reachable OpSpecs FuelMono FuelMono2 SpecCor BddBracketText.
Import ListNotations.
Local Open Scope N_scope.

Section C09.
  Variable nhash : node -> N.            (* any node hash: every collision pattern of the unique table *)
  Variable khash : key -> N.             (* any operation-cache hash *)
  Variable bmask cmask0 smask0 capacity : N.   (* any bucket count, cache sizes, capacity *)
  Hypothesis cap_ok : 2 <= capacity.
  Context {MS : Memo ref ref} {MC : Memo (ref * ref) ref} {MQ : Memo (nat * ref) ref} {MN : Memo ref N}.  (* any memo tables *)
  Local Instance pops : StoreOps := concrete_ops nhash khash.
  Local Instance pok : StoreOK := concrete_ok nhash khash.
  Notation reachable := (@reachable nhash khash bmask cmask0 smask0 capacity MS MC MQ MN).
  Notation mstep := (@mstep nhash khash MS MC MQ MN).
  Notation denotes := (denotes nhash khash).
  Notation denotes_in := (denotes_in nhash khash).
  Notation frame := (frame nhash khash).

  (* for every f, v and g (g may depend on v or on earlier variables, may be constant; v may lie outside f's support) *)
  Theorem C09_compose mr f g rf rg F G v fuel mr' x :
    reachable mr -> liveh mr f rf -> liveh mr g rg -> denotes mr rf F -> denotes mr rg G ->
    mstep fuel mr (HCompose f v g) = Some (mr', x) ->
    exists r, x = OReg r /\ newreg mr mr' r /\ frame mr mr' /\ denotes mr' r (fun e => F (upd e v (G e))).
  Proof. exact (compose_step_spec nhash khash bmask cmask0 smask0 capacity cap_ok mr f g rf rg F G v fuel mr' x). Qed.
  (* equivalently ITE(g, f with v=1, f with v=0) *)
  Theorem C09_as_ite (F G : bfun) v e : F (upd e v (G e)) = if G e then F (upd e v true) else F (upd e v false).
  Proof. destruct (G e); reflexivity. Qed.
  (* v outside the support of f: the result is f *)
  Theorem C09_outside_support (F G : bfun) v : indep F v -> forall e, F (upd e v (G e)) = F e.
  Proof. intros HI e. apply HI. Qed.
  (* termination of compose: with fuel above three times the number of variable levels, no result ONLY IF the node table
     filled up *)
  Theorem C09_compose_fuel_bound mr f g rf rg v :
    reachable mr -> liveh mr f rf -> liveh mr g rg ->
    exists bound, forall fuel, (bound <= fuel)%nat -> mstep fuel mr (HCompose f v g) = None ->
      exists s', sext (store mr) s' /\ Inv s' /\ storage_full node (tbl s').
  Proof. exact (compose_step_fuel_bound nhash khash bmask cmask0 smask0 capacity cap_ok mr f g rf rg v). Qed.
End C09.

Print Assumptions C09_compose.
Print Assumptions C09_as_ite.
Print Assumptions C09_outside_support.
Print Assumptions C09_compose_fuel_bound.
