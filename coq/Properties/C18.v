(* C18 — The operation cache never returns a value stored under a different key.
   Only property theorems, each closed by quoting lemmas proved elsewhere (CacheProto.v), and Print Assumptions. *)
From Coq Require Import Arith NArith Bool List Lia.
Require Import TableProto CacheProto.
Import ListNotations.
Local Open Scope N_scope.

Section C18.
  Variable K V : Type.                        (* any key and value types (distinct operation kinds are distinct keys) *)
  Variable keqb : K -> K -> bool.
  Hypothesis keqb_spec : forall a b, reflect (a = b) (keqb a b).
  Variable hash : K -> N.                     (* any hash: any collisions, e.g. constrain / restrict keys hashing alike *)

  (* after ANY interleaving of insert / get / clear on a cache of ANY size (mask): a lookup returns nothing, or the value
     most recently inserted under exactly that key since the last clear; hits + misses = number of lookups;
     faults <= misses *)
  Theorem C18_cache_sound mask ops k : let c := run K V keqb hash (cnew K V mask) ops in
    (snd (cget K V keqb hash c k) = None \/ snd (cget K V keqb hash c k) = latest K V keqb (rev ops) k) /\
    hits K V c + misses K V c = ngets K V (rev ops) /\ faults K V c <= misses K V c.
  Proof. exact (cache_sound K V keqb keqb_spec hash mask ops k). Qed.
  (* clear forgets everything *)
  Theorem C18_clear_forgets ops k : latest K V keqb (Clear K V :: ops) k = None.
  Proof. reflexivity. Qed.
  (* a value inserted under another key is never the answer: `latest` only ever looks at insertions under k *)
  Theorem C18_other_keys_irrelevant ops k k' v : keqb k' k = false -> latest K V keqb (Insert K V k' v :: ops) k = latest K V keqb ops k.
  Proof. intro H. cbn [latest]. now rewrite H. Qed.
End C18.

Print Assumptions C18_cache_sound.
Print Assumptions C18_clear_forgets.
Print Assumptions C18_other_keys_irrelevant.
