(* C10 — constrain is the generalized cofactor
   Only property theorems, each closed by quoting lemmas proved elsewhere, and Print Assumptions.
   Generated from Properties/bodies/C10.v.in by mkprop.py (shared preamble: hdr.txt, sec.txt). *)
From Coq Require Import Arith NArith Bool List Lia.
Require Import Canon SemTk CountTk TableProto BddBase BddIte BddCR BddSat BddCof BddCof2 BddCtor BddEval BddPaths BddPathsCount BddReach BddExport BddDot BddMinimal BddTerm BddTerm2 Glue Machine Reachable OpSpecs FuelMono FuelMono2 SpecCor BddBracketText.
Import ListNotations.
Local Open Scope N_scope.

Section C10.
  Variable nhash : node -> N.            (* any node hash: every collision pattern of the unique table *)
  Variable khash : key -> N.             (* any operation-cache hash *)
  Variable bmask cmask0 smask0 capacity : N.   (* any bucket count, cache sizes, capacity *)
  Hypothesis cap_ok : 2 <= capacity.
  Context {MS : Memo ref ref} {MC : Memo (ref * ref) ref} {MQ : Memo (nat * ref) ref} {MN : Memo ref N}.  (* any memo tables *)
  Local Instance pops : StoreOps := concrete_ops nhash khash.
  Local Instance pok : StoreOK := concrete_ok nhash khash.
  Notation reachable := (@reachable nhash khash bmask cmask0 smask0 capacity MS MC MQ MN).
  Notation mstep := (@mstep nhash khash MS MC MQ MN).
  Notation denotes := (denotes nhash khash).
  Notation denotes_in := (denotes_in nhash khash).
  Notation frame := (frame nhash khash).

  (* the result denotes the executable generalised-cofactor specification over any ascending variable list covering
     both diagrams: x -> f(proj vs g x) where g is satisfiable below x, false otherwise *)
  Theorem C10_constrain mr f g rf rg F G vs fuel mr' x :
    reachable mr -> liveh mr f rf -> liveh mr g rg -> denotes_in mr vs rf F -> denotes_in mr vs rg G -> asc 0 vs ->
    mstep fuel mr (HConstrain f g) = Some (mr', x) ->
    exists r, x = OReg r /\ newreg mr mr' r /\ frame mr mr' /\
      exists tf tg tr, V (store mr) rf tf /\ V (store mr) rg tg /\ V (store mr') r tr /\
        (forall e, rsem r tr e = constrain_spec vs (rsem rf tf) (rsem rg tg) e).
  Proof. exact (constrain_step_spec nhash khash bmask cmask0 smask0 capacity cap_ok mr f g rf rg F G vs fuel mr' x). Qed.
  (* a covering list always exists (non-vacuity of the hypotheses) *)
  Theorem C10_cover mr r F : denotes mr r F -> exists n, denotes_in mr (upto n) r F /\ asc 0 (upto n).
  Proof. intro H. destruct (denotes_cover nhash khash capacity cap_ok mr r F H) as (n & Hn). exists n. split; [exact Hn|exact (upto_asc capacity cap_ok n)]. Qed.
  (* proj is the point of g closest to x, earlier variables weighing more: against any other point z of g, proj agrees
     with x at the first listed variable where proj and z differ *)
  Theorem C10_closest_point vs : forall G x, ext G -> NoDup vs -> unsat vs G x = false ->
    forall z, G z = true -> (forall w, ~ In w vs -> z w = x w) ->
    (forall w, In w vs -> proj vs G x w = z w) \/
    exists pre v post, vs = pre ++ v :: post /\ (forall w, In w pre -> proj vs G x w = z w) /\
      proj vs G x v <> z v /\ proj vs G x v = x v.
  Proof. exact (proj_closest vs). Qed.
  (* the projection lands in g, and fixes the points of g: constrain(f,g) agrees with f wherever g holds *)
  Theorem C10_lands_in_g vs G x : ext G -> NoDup vs -> unsat vs G x = false -> G (proj vs G x) = true.
  Proof. exact (proj_in vs G x). Qed.
  Theorem C10_agrees_on_g vs (F G : bfun) x : ext F -> ext G -> NoDup vs -> G x = true -> unsat vs G x = false ->
    constrain_spec vs F G x = F x.
  Proof. intros HF HG Hnd Hg Hu. unfold constrain_spec. rewrite Hu. apply HF. apply proj_fix; assumption. Qed.
  (* g = false: false by convention *)
  Theorem C10_false_care_set vs (F : bfun) x : constrain_spec vs F (fun _ => false) x = false.
  Proof. apply cs_unsat. unfold unsat. apply forallb_forall. reflexivity. Qed.
  (* commutes with negation and distributes over every binary connective, because it is f composed with a projection *)
  Theorem C10_distributes vs (op : bool -> bool -> bool) (F H G : bfun) x : unsat vs G x = false ->
    constrain_spec vs (fun e => op (F e) (H e)) G x = op (constrain_spec vs F G x) (constrain_spec vs H G x).
  Proof. intro Hu. unfold constrain_spec. rewrite Hu. reflexivity. Qed.
  Theorem C10_commutes_with_negation vs (F G : bfun) x : unsat vs G x = false ->
    constrain_spec vs (fun e => negb (F e)) G x = negb (constrain_spec vs F G x).
  Proof. intro Hu. unfold constrain_spec. rewrite Hu. reflexivity. Qed.
  (* termination: for every reachable state and live handles there is a fuel bound (a multiple of the number of variable
     levels) from which on the step yields no result ONLY IF the node table filled up on the way ("Storage is full") *)
  Theorem C10_constrain_fuel_bound mr f g rf rg :
    reachable mr -> liveh mr f rf -> liveh mr g rg ->
    exists bound, forall fuel, (bound <= fuel)%nat -> mstep fuel mr (HConstrain f g) = None ->
      exists s', sext (store mr) s' /\ Inv s' /\ storage_full node (tbl s').
  Proof. exact (constrain_step_fuel_bound nhash khash bmask cmask0 smask0 capacity cap_ok mr f g rf rg). Qed.
  (* the named special cases, on the specification: constrain(f,1) = f, constrain(f,f) = 1, constrain(f, NOT f) = 0, and
     constrain by a cube (a conjunction of literals over distinct listed variables) is the plain cofactor *)
  Theorem C10_true_care_set vs (F : bfun) x : ext F -> NoDup vs -> constrain_spec vs F (fun _ => true) x = F x.
  Proof. exact (constrain_true vs F x). Qed.
  Theorem C10_self vs (F : bfun) x : ext F -> NoDup vs -> unsat vs F x = false -> constrain_spec vs F F x = true.
  Proof. exact (constrain_self vs F x). Qed.
  Theorem C10_negated_self vs (F : bfun) x : ext F -> NoDup vs -> unsat vs (fun a => negb (F a)) x = false ->
    constrain_spec vs F (fun a => negb (F a)) x = false.
  Proof. exact (constrain_neg_self vs F x). Qed.
  Theorem C10_cube_is_cofactor vs (F : bfun) lits x : ext F -> NoDup vs -> NoDup (map fst lits) ->
    (forall v, In v (map fst lits) -> In v vs) -> constrain_spec vs F (cubef lits) x = F (override x lits).
  Proof. exact (constrain_cube vs F lits x). Qed.
End C10.

Print Assumptions C10_constrain.
Print Assumptions C10_cover.
Print Assumptions C10_closest_point.
Print Assumptions C10_lands_in_g.
Print Assumptions C10_agrees_on_g.
Print Assumptions C10_false_care_set.
Print Assumptions C10_distributes.
Print Assumptions C10_commutes_with_negation.
Print Assumptions C10_constrain_fuel_bound.
Print Assumptions C10_true_care_set.
Print Assumptions C10_self.
Print Assumptions C10_negated_self.
Print Assumptions C10_cube_is_cofactor.
