(* C01 — Canonical form: handle equality is exactly Boolean-function equality.
   This file contains only the property theorems (each closed by an `exact`/short composition of lemmas proved
   elsewhere), `Check` pins of their statements, and `Print Assumptions`. *)
From Coq Require Import NArith Bool List.
Require Import Canon SemTk TableProto BddBase BddIte BddSat Glue Machine Reachable.
Local Open Scope N_scope.

Section C01.
  Variable nhash : node -> N.            (* any node hash: every collision pattern of the unique table *)
  Variable khash : key -> N.             (* any operation-cache hash *)
  Variable bmask cmask0 smask0 capacity : N.   (* any bucket count, cache sizes, capacity *)
  Hypothesis cap_ok : 2 <= capacity.
  Context {MS : Memo ref ref} {MC : Memo (ref * ref) ref} {MQ : Memo (nat * ref) ref} {MN : Memo ref N}.
  Local Instance pops : StoreOps := concrete_ops nhash khash.
  Local Instance pok : StoreOK := concrete_ok nhash khash.
  Notation reachable := (@reachable nhash khash bmask cmask0 smask0 capacity MS MC MQ MN).
  Notation denotes := (denotes nhash khash).

  (* In every state reached by any history of operations and collections, two live handles are equal iff they
     denote the same function. *)
  Theorem C01_handle_eq_iff_function_eq mr a b ra rb Fa Fb :
    reachable mr -> liveh mr a ra -> liveh mr b rb -> denotes mr ra Fa -> denotes mr rb Fb ->
    (ra = rb <-> forall e, Fa e = Fb e).
  Proof.
    intros HR _ _ (ta & Va & Sa) (tb & Vb & Sb). destruct (reachable_good _ _ _ _ _ _ cap_ok _ HR) as (HI & _).
    rewrite (handle_eq_iff _ _ _ _ _ HI Va Vb). split; intros H e; [rewrite <- Sa, <- Sb|rewrite Sa, Sb]; apply H.
  Qed.

  (* non-vacuity: every live handle of a reachable state does denote a function *)
  Theorem C01_live_handles_denote mr a r : reachable mr -> liveh mr a r -> exists F, denotes mr r F.
  Proof. exact (live_denotes _ _ _ _ _ _ cap_ok mr a r). Qed.

  (* negation is the free involution on handles *)
  Theorem C01_negation mr r F : denotes mr r F ->
    denotes mr (rneg r) (fun e => negb (F e)) /\ rneg (rneg r) = r /\ rneg r <> r.
  Proof.
    intro H. split; [exact (denotes_neg _ _ _ _ _ H)|]. destruct r as [i n]; unfold rneg; cbn. split; [now rewrite negb_involutive|].
    intro E. injection E as E. now destruct n.
  Qed.
End C01.

Check C01_handle_eq_iff_function_eq :
  forall nhash khash bmask cmask0 smask0 capacity, 2 <= capacity ->
  forall (MS : Memo ref ref) (MC : Memo (ref * ref) ref) (MQ : Memo (nat * ref) ref) (MN : Memo ref N)
    mr a b ra rb (Fa Fb : bfun),
    @reachable nhash khash bmask cmask0 smask0 capacity MS MC MQ MN mr ->
    liveh mr a ra -> liveh mr b rb -> denotes nhash khash mr ra Fa -> denotes nhash khash mr rb Fb ->
    (ra = rb <-> forall e, Fa e = Fb e).
Print Assumptions C01_handle_eq_iff_function_eq.
Print Assumptions C01_live_handles_denote.
Print Assumptions C01_negation.
