#!/usr/bin/env python3
"""Assembles Properties/Cxx.v from the shared header/section preamble and a body (bodies/Cxx.v.in):
keeps the 16 Bdd-level property files uniform.  Run: python3 mkprop.py"""
import glob, os, re
here = os.path.dirname(os.path.abspath(__file__))
hdr = open(os.path.join(here, "hdr.txt")).read()
sec = open(os.path.join(here, "sec.txt")).read()
for path in sorted(glob.glob(os.path.join(here, "bodies", "C*.v.in"))):
    pid = os.path.basename(path)[:3]
    body = open(path).read()
    title, body = body.split("\n", 1)
    thms = re.findall(r"^  Theorem ([A-Za-z0-9_']+)", body, re.M)
    out = "(* %s — %s\n   Only property theorems, each closed by quoting lemmas proved elsewhere, and Print Assumptions.\n   Generated from Properties/bodies/%s.v.in by mkprop.py (shared preamble: hdr.txt, sec.txt). *)\n" % (pid, title.strip("(* )"), pid)
    out += hdr + "\nSection %s.\n" % pid + sec + "\n" + body + "End %s.\n\n" % pid
    out += "".join("Print Assumptions %s.\n" % t for t in thms)
    open(os.path.join(here, pid + ".v"), "w").write(out)
