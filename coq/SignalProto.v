From Coq Require Import NArith ZArith Bool Lia.
Local Open Scope N_scope.
Ltac Zify.zify_post_hook ::= Z.to_euclidean_division_equations.

(* examples/eda/src/signal.rs: u32 arithmetic written out *)
Definition W := 4294967296.              (* 2^32 *)
Definition MAGIC := 2147483648.          (* 2^31 *)
Definition wrap (x : N) := x mod W.
Definition not32 (x : N) := W - 1 - x.   (* !x for x < 2^32 *)
Definition from_index (i : N) := wrap (2 * i).
Definition from_var (v : N) := from_index (wrap (v + 1)).
Definition from_input (i : N) := from_index (not32 i).
Definition sig_index (s : N) := s / 2.
Definition is_const (s : N) := sig_index s =? 0.
Definition is_input (s : N) := negb (N.land s MAGIC =? 0).
Definition is_var (s : N) := negb (is_input s) && negb (is_const s).
Definition is_negated (s : N) := negb (N.land s 1 =? 0).
Definition sig_var (s : N) := sig_index s - 1.
Definition sig_input (s : N) := N.land (not32 (sig_index s)) (not32 MAGIC).
Definition snot (s : N) := N.lxor s 1.

(* bridging lemmas: the three bit operations in arithmetic form *)
Lemma land_pow2 a n : N.land a (2 ^ n) = if N.testbit a n then 2 ^ n else 0.
Proof.
  apply N.bits_inj. intro m. rewrite N.land_spec, N.pow2_bits_eqb.
  destruct (N.eqb_spec n m) as [->|Hne].
  - rewrite andb_true_r. destruct (N.testbit a m); [now rewrite N.pow2_bits_true|now rewrite N.bits_0].
  - rewrite andb_false_r. destruct (N.testbit a n); [now rewrite N.pow2_bits_false|now rewrite N.bits_0].
Qed.
Lemma bit31 s : s < W -> N.testbit s 31 = (MAGIC <=? s).
Proof.
  intro H. pose proof (N.testbit_spec' s 31) as E. change (2 ^ 31) with MAGIC in E. unfold W, MAGIC in *.
  destruct (N.testbit s 31), (N.leb_spec 2147483648 s); cbn [N.b2n] in E; try reflexivity; exfalso; lia.
Qed.
Lemma is_input_spec s : s < W -> is_input s = (MAGIC <=? s).
Proof.
  intro H. unfold is_input. change MAGIC with (2 ^ 31) at 1. rewrite land_pow2, bit31 by assumption.
  destruct (MAGIC <=? s); reflexivity.
Qed.
Lemma land1 s : N.land s 1 = s mod 2.
Proof. change 1 with (N.ones 1). apply N.land_ones. Qed.
Lemma land_low31 x : N.land x (not32 MAGIC) = x mod MAGIC.
Proof. change (not32 MAGIC) with (N.ones 31). change MAGIC with (2 ^ 31). apply N.land_ones. Qed.
Lemma lxor1 s : (N.even s = true -> N.lxor s 1 = s + 1) /\ (N.even s = false -> N.lxor s 1 + 1 = s).
Proof. destruct s as [|[p|p|]]; cbn; split; intro; try discriminate; reflexivity. Qed.

(* ---- C20, Signal part ---- *)
Ltac splits := repeat match goal with |- _ /\ _ => split end.
Ltac bsolve := repeat match goal with
  | |- context[?a <=? ?b] => destruct (N.leb_spec a b)
  | |- context[?a =? ?b] => destruct (N.eqb_spec a b)
  end; cbn; try reflexivity; try lia.

Theorem var_roundtrip v : v <= 1073741822 ->            (* 2^30 - 2 *)
  let s := from_var v in
  s < W /\ sig_var s = v /\ is_var s = true /\ is_input s = false /\ is_const s = false /\ is_negated s = false.
Proof.
  intros Hv s. assert (Es : s = 2 * (v + 1)) by (unfold s, from_var, from_index, wrap, W; lia).
  assert (Hs : s < W) by (unfold W; lia).
  unfold sig_var, is_var, is_const, is_negated, sig_index. rewrite is_input_spec, land1 by assumption. unfold MAGIC.
  rewrite Es. splits; try (unfold W; lia); bsolve.
Qed.
Theorem input_roundtrip i : i <= 1073741823 ->          (* 2^30 - 1 *)
  let s := from_input i in
  s < W /\ sig_input s = i /\ is_input s = true /\ is_var s = false /\ is_const s = false /\ is_negated s = false.
Proof.
  intros Hi s. assert (Es : s = 2 * (W - 1 - i) - W) by (unfold s, from_input, from_index, not32, wrap, W; lia).
  assert (Hs : s < W) by (unfold W in *; lia).
  unfold sig_input, is_var, is_const, is_negated, sig_index. rewrite is_input_spec, land1, land_low31 by assumption.
  unfold not32, MAGIC, W in *. rewrite Es. splits; try lia; bsolve.
Qed.
(* every 32-bit signal is in exactly one class *)
Theorem classes s : s < W ->
  (is_const s = true /\ is_input s = false /\ is_var s = false) \/
  (is_const s = false /\ is_input s = true /\ is_var s = false) \/
  (is_const s = false /\ is_input s = false /\ is_var s = true).
Proof.
  intro Hs. unfold is_var, is_const, sig_index. rewrite is_input_spec by assumption. unfold MAGIC, W in *.
  destruct (N.eqb_spec (s / 2) 0), (N.leb_spec 2147483648 s); cbn; auto. exfalso; lia.
Qed.
(* complement flips the polarity bit only, and is an involution *)
Theorem not_spec s : s < W ->
  snot s < W /\ snot (snot s) = s /\ sig_index (snot s) = sig_index s /\ is_negated (snot s) = negb (is_negated s) /\
  is_input (snot s) = is_input s /\ is_const (snot s) = is_const s /\ is_var (snot s) = is_var s.
Proof.
  intro Hs. unfold snot. destruct (lxor1 s) as [He Ho].
  assert (Hi : N.lxor s 1 < W /\ N.lxor s 1 / 2 = s / 2 /\ (N.lxor s 1) mod 2 = 1 - s mod 2 /\ (2147483648 <=? N.lxor s 1) = (2147483648 <=? s)).
  { unfold W in *. destruct (N.even s) eqn:E.
    - rewrite (He eq_refl). apply N.even_spec in E. destruct E as [q ->]. splits; try lia; bsolve.
    - specialize (Ho eq_refl). assert (N.odd s = true) by (rewrite <- N.negb_even, E; reflexivity). apply N.odd_spec in H. destruct H as [q ->].
      assert (N.lxor (2 * q + 1) 1 = 2 * q) by lia. rewrite H. splits; try lia; bsolve. }
  destruct Hi as (H1 & H2 & H3 & H4).
  unfold is_var, is_const, is_negated, sig_index. rewrite !is_input_spec, !land1 by assumption. unfold MAGIC. rewrite H2, H3, H4.
  splits; auto.
  - destruct (lxor1 (N.lxor s 1)) as [He' Ho']. destruct (N.even s) eqn:E.
    + assert (N.even (N.lxor s 1) = false) by (rewrite (He eq_refl), N.even_add; rewrite E; reflexivity). specialize (Ho' H). rewrite (He eq_refl) in Ho' at 2. lia.
    + assert (N.even (N.lxor s 1) = true).
      { specialize (Ho eq_refl). assert (N.odd s = true) by (rewrite <- N.negb_even, E; reflexivity). apply N.odd_spec in H. destruct H as [q ->].
        assert (N.lxor (2 * q + 1) 1 = 2 * q) by lia. rewrite H. apply N.even_spec. exists q. reflexivity. }
      rewrite (He' H). specialize (Ho eq_refl). lia.
  - assert (s mod 2 < 2) by (apply N.mod_lt; lia). destruct (N.eqb_spec (1 - s mod 2) 0), (N.eqb_spec (s mod 2) 0); cbn; auto; lia.
Qed.
Print Assumptions not_spec.
