From Coq Require Import NArith Bool Lia List.
Require Import Canon SemTk BddBase BddIte BddSat BddCof BddCtor.
Import ListNotations.
Local Open Scope N_scope.

Section Paths.
  Context {SO : StoreOps} {OK : StoreOK}.

  Definition path := list lit.
  Definition sat (e : env) (p : path) : bool := forallb (holds e) p.

  (* src/paths.rs: BddPaths::next over an explicit stack (top of stack = head of list) *)
  Fixpoint pnext (fuel : nat) (s : st) (stack : list (ref * path)) : option (option path * list (ref * path)) :=
    match fuel with O => None | S fuel =>
      match stack with
      | [] => Some (None, [])
      | (node, p) :: rest =>
        if is_zero node then pnext fuel s rest
        else if is_one node then Some (Some p, rest)
        else let v := top s node in
             pnext fuel s ((low_node s node, p ++ [(v, false)]) :: (high_node s node, p ++ [(v, true)]) :: rest)
      end
    end.
  (* collecting the iterator *)
  Fixpoint pall (n : nat) (fuel : nat) (s : st) (stack : list (ref * path)) : option (list path) :=
    match n with O => None | S n =>
      match pnext fuel s stack with
      | None => None
      | Some (None, _) => Some []
      | Some (Some p, stack') => match pall n fuel s stack' with Some ps => Some (p :: ps) | None => None end
      end
    end.

  (* root-to-true paths of a signed tree, else-branch first *)
  Fixpoint tpaths (n : bool) (t : tree) (pre : path) : list path :=
    match t with
    | Leaf => if n then [] else [pre]
    | Nd v ln l h => tpaths (xorb n ln) l (pre ++ [(v, false)]) ++ tpaths n h (pre ++ [(v, true)])
    end.

  Definition stack_ok (s : st) (stack : list (ref * path)) (ts : list tree) : Prop :=
    Forall2 (fun np t => V s (fst np) t) stack ts.
  Fixpoint stack_paths (stack : list (ref * path)) (ts : list tree) : list path :=
    match stack, ts with
    | (node, p) :: rest, t :: ts' => tpaths (neg node) t p ++ stack_paths rest ts'
    | _, _ => []
    end.

  Lemma pnext_ok : forall fuel s stack ts o stack', Inv s -> stack_ok s stack ts ->
    pnext fuel s stack = Some (o, stack') ->
    exists ts', stack_ok s stack' ts' /\
      match o with
      | None => stack_paths stack ts = [] /\ stack' = []
      | Some p => stack_paths stack ts = p :: stack_paths stack' ts'
      end.
  Proof.
    induction fuel as [|fuel IH]; intros s stack ts o stack' HT Hok H; [discriminate|]. cbn [pnext] in H.
    destruct stack as [|[node p] rest].
    - injection H as <- <-. inversion Hok; subst. exists []. split; [constructor|]. auto.
    - inversion Hok as [|? t ? ts' Vn Hrest]; subst. cbn [fst] in Vn.
      destruct (is_zero node) eqn:Z.
      { apply is_zero_true in Z. subst node. pose proof (V_term _ zero _ eq_refl Vn) as ->.
        destruct (IH _ _ _ _ _ HT Hrest H) as (ts2 & Hok2 & Ho). exists ts2. split; [assumption|]. cbn. exact Ho. }
      destruct (is_one node) eqn:O.
      { apply is_one_true in O. subst node. pose proof (V_term _ one _ eq_refl Vn) as ->.
        injection H as <- <-. exists ts'. split; [assumption|]. reflexivity. }
      assert (Hnt : idx node <> 1) by (rewrite <- N.eqb_neq, <- term_idx, O, Z; reflexivity).
      destruct t as [|v ln tl th]; [destruct (top_leaf _ _ HT Vn); contradiction|].
      destruct (lh_ok _ _ _ _ _ _ HT Vn) as (Vl & Vh & _ & _ & _ & Ht & _). rewrite Ht in H.
      assert (Hok' : stack_ok s ((low_node s node, p ++ [(v, false)]) :: (high_node s node, p ++ [(v, true)]) :: rest) (tl :: th :: ts')).
      { constructor; [exact Vl|]. constructor; [exact Vh|exact Hrest]. }
      destruct (IH _ _ _ _ _ HT Hok' H) as (ts2 & Hok2 & Ho). exists ts2. split; [assumption|].
      assert (E : stack_paths ((node, p) :: rest) (Nd v ln tl th :: ts') =
                  stack_paths ((low_node s node, p ++ [(v, false)]) :: (high_node s node, p ++ [(v, true)]) :: rest) (tl :: th :: ts')).
      { cbn [stack_paths tpaths]. rewrite <- app_assoc. f_equal; [|f_equal].
        - f_equal. destruct Vn as (HR & _). apply Rep_nd_inv in HR. destruct HR as (_ & l & h & Hc & Hreg & -> & _).
          unfold low_node. rewrite Hc. destruct (neg node); cbn; now destruct (neg l).
        - f_equal. destruct Vn as (HR & _). apply Rep_nd_inv in HR. destruct HR as (_ & l & h & Hc & Hreg & _).
          unfold high_node. rewrite Hc. destruct (neg node); cbn; now rewrite Hreg. }
      rewrite E. exact Ho.
  Qed.

  (* the iterator yields exactly the tree paths, in order, each once *)
  Theorem pall_ok : forall n fuel s stack ts ps, Inv s -> stack_ok s stack ts ->
    pall n fuel s stack = Some ps -> ps = stack_paths stack ts.
  Proof.
    induction n as [|n IH]; intros fuel s stack ts ps HT Hok H; [discriminate|]. cbn [pall] in H.
    destruct (pnext fuel s stack) as [[[p|] stack']|] eqn:Hn; try discriminate.
    - destruct (pall n fuel s stack') as [ps'|] eqn:Hp; [|discriminate]. injection H as <-.
      destruct (pnext_ok _ _ _ _ _ _ HT Hok Hn) as (ts' & Hok' & ->). f_equal. eapply IH; eauto.
    - injection H as <-. destruct (pnext_ok _ _ _ _ _ _ HT Hok Hn) as (ts' & _ & -> & _). reflexivity.
  Qed.

  (* for every assignment: the number of enumerated paths it satisfies is 1 if it satisfies f, else 0
     (completeness, soundness and pairwise disjointness in one statement) *)
  Lemma tpaths_count e : forall t n pre,
    length (filter (sat e) (tpaths n t pre)) = if xorb n (tsem t e) && sat e pre then 1%nat else 0%nat.
  Proof.
    induction t as [|v ln l IHl h IHh]; intros n pre; cbn [tpaths tsem].
    - destruct n; cbn; [reflexivity|]. now destruct (sat e pre).
    - rewrite filter_app, app_length, IHl, IHh. unfold sat. rewrite !forallb_app. cbn [forallb]. unfold holds at 2 4; cbn [fst snd].
      destruct (e v), (forallb (holds e) pre), n, ln, (tsem l e), (tsem h e); reflexivity.
  Qed.
  Corollary paths_exactly_once s r t e : V s r t ->
    length (filter (sat e) (tpaths (neg r) t [])) = if rsem r t e then 1%nat else 0%nat.
  Proof. intros _. rewrite tpaths_count. unfold rsem. cbn. now rewrite andb_true_r. Qed.

  (* paths list variables in strictly increasing order (ordered trees) *)
  Fixpoint incr (lb : N) (p : path) : Prop := match p with [] => True | x :: r => lb < fst x /\ incr (fst x) r end.
  Lemma incr_app lb p v b : incr lb p -> (forall x, In x p -> fst x < v) -> lb < v -> incr lb (p ++ [(v, b)]).
  Proof.
    revert lb. induction p as [|x r IH]; intros lb Hi Hlt Hlb; cbn; [auto|].
    destruct Hi as [H1 H2]. split; [assumption|]. apply IH; [exact H2|intros y Hy; apply Hlt; right; assumption|apply Hlt; left; reflexivity].
  Qed.
  Lemma tpaths_incr : forall t n pre lb p, ordered t -> above lb t -> incr 0 pre -> (forall x, In x pre -> fst x <= lb) -> 0 < lb \/ pre = [] ->
    In p (tpaths n t pre) -> incr 0 p.
  Proof.
    induction t as [|v ln l IHl h IHh]; intros n pre lb p Ho Ha Hpre Hle Hlb Hin; cbn [tpaths] in Hin.
    - destruct n; [destruct Hin|]. destruct Hin as [<-|[]]. exact Hpre.
    - destruct Ho as (Al & Ah & Ol & Oh). destruct Ha as (Hv & _ & _).
      assert (Hpre' : forall b, incr 0 (pre ++ [(v, b)])).
      { intro b. apply incr_app; auto; [|lia]. intros x Hx. specialize (Hle x Hx). lia. }
      assert (Hle' : forall b x, In x (pre ++ [(v, b)]) -> fst x <= v).
      { intros b x Hx. apply in_app_or in Hx. destruct Hx as [Hx|[<-|[]]]; [specialize (Hle x Hx); lia|cbn; lia]. }
      apply in_app_or in Hin. destruct Hin as [Hin|Hin].
      + assert (Hv0 : 0 < v) by lia.
        exact (IHl _ _ v p Ol Al (Hpre' false) (Hle' false) (or_introl Hv0) Hin).
      + assert (Hv0 : 0 < v) by lia.
        exact (IHh _ _ v p Oh Ah (Hpre' true) (Hle' true) (or_introl Hv0) Hin).
  Qed.

  (* ================= one_sat: depth-first, then-branch first ================= *)
  Fixpoint one_sat (fuel : nat) (s : st) (node : ref) (p : path) : option (option path) :=
    match fuel with O => None | S fuel =>
      if is_zero node then Some None
      else if is_one node then Some (Some p)
      else let v := top s node in
           match one_sat fuel s (high_node s node) (p ++ [(v, true)]) with
           | None => None
           | Some (Some res) => Some (Some res)
           | Some None => one_sat fuel s (low_node s node) (p ++ [(v, false)])
           end
    end.
  Fixpoint tone (n : bool) (t : tree) (pre : path) : option path :=
    match t with
    | Leaf => if n then None else Some pre
    | Nd v ln l h => match tone n h (pre ++ [(v, true)]) with Some p => Some p | None => tone (xorb n ln) l (pre ++ [(v, false)]) end
    end.
  Lemma one_sat_tone : forall fuel s node t p o, Inv s -> V s node t -> one_sat fuel s node p = Some o -> o = tone (neg node) t p.
  Proof.
    induction fuel as [|fuel IH]; intros s node t p o HI HV H; [discriminate|]. cbn [one_sat] in H.
    destruct (is_zero node) eqn:Z.
    { apply is_zero_true in Z. subst node. injection H as <-. now rewrite (V_term _ zero _ eq_refl HV). }
    destruct (is_one node) eqn:O.
    { apply is_one_true in O. subst node. injection H as <-. now rewrite (V_term _ one _ eq_refl HV). }
    assert (Hnt : idx node <> 1) by (rewrite <- N.eqb_neq, <- term_idx, O, Z; reflexivity).
    destruct t as [|v ln tl th]; [destruct (top_leaf _ _ HI HV); contradiction|].
    destruct (lh_ok _ _ _ _ _ _ HI HV) as (Vl & Vh & _ & _ & _ & Ht & _). rewrite Ht in H.
    assert (Nh : neg (high_node s node) = neg node /\ neg (low_node s node) = xorb (neg node) ln).
    { destruct HV as (HR & _). apply Rep_nd_inv in HR. destruct HR as (_ & l & h & Hc & Hreg & -> & _).
      unfold high_node, low_node. rewrite Hc. destruct (neg node); cbn; rewrite ?Hreg; split; auto; now destruct (neg l). }
    destruct Nh as [Nh Nl]. cbn [tone].
    destruct (one_sat fuel s (high_node s node) (p ++ [(v, true)])) as [[res|]|] eqn:H1; [| |discriminate].
    - injection H as <-. rewrite <- Nh. rewrite <- (IH _ _ _ _ _ HI Vh H1). reflexivity.
    - rewrite <- Nh at 1. rewrite <- (IH _ _ _ _ _ HI Vh H1). rewrite <- Nl. eapply IH; eauto.
  Qed.
  Lemma tone_some : forall t n pre p, tone n t pre = Some p ->
    (exists suf, p = pre ++ suf) /\ forall e, sat e p = true -> xorb n (tsem t e) = true.
  Proof.
    induction t as [|v ln l IHl h IHh]; intros n pre p H; cbn [tone] in H.
    - destruct n; [discriminate|]. injection H as <-. split; [exists []; now rewrite app_nil_r|reflexivity].
    - destruct (tone n h (pre ++ [(v, true)])) as [q|] eqn:E.
      + injection H as <-. destruct (IHh _ _ _ E) as ((suf & ->) & Hs). split; [exists ((v, true) :: suf); now rewrite <- app_assoc|].
        intros e He. cbn [tsem]. assert (e v = true).
        { unfold sat in He. rewrite !forallb_app in He. cbn [forallb] in He. apply andb_prop in He as [He _]. apply andb_prop in He as [_ He].
          apply andb_prop in He as [He _]. unfold holds in He; cbn in He. now destruct (e v). }
        rewrite H. apply Hs. exact He.
      + destruct (IHl _ _ _ H) as ((suf & ->) & Hs). split; [exists ((v, false) :: suf); now rewrite <- app_assoc|].
        intros e He. cbn [tsem]. assert (e v = false).
        { unfold sat in He. rewrite !forallb_app in He. cbn [forallb] in He. apply andb_prop in He as [He _]. apply andb_prop in He as [_ He].
          apply andb_prop in He as [He _]. unfold holds in He; cbn in He. now destruct (e v). }
        rewrite H0. specialize (Hs e He). now destruct n, ln, (tsem l e).
  Qed.
  Lemma tone_none : forall t n pre, tone n t pre = None -> forall e, xorb n (tsem t e) = false.
  Proof.
    induction t as [|v ln l IHl h IHh]; intros n pre H e; cbn [tone] in H.
    - destruct n; [reflexivity|discriminate].
    - destruct (tone n h (pre ++ [(v, true)])) as [q|] eqn:E; [discriminate|]. cbn [tsem].
      pose proof (IHh _ _ E e). pose proof (IHl _ _ H e). destruct (e v); [assumption|]. now destruct n, ln, (tsem l e).
  Qed.
  (* C14 (one_sat): None exactly for the constant false; otherwise a cube all of whose completions satisfy f *)
  Theorem one_sat_ok fuel s f t o : Inv s -> V s f t -> one_sat fuel s f [] = Some o ->
    match o with
    | None => f = zero
    | Some p => forall e, sat e p = true -> rsem f t e = true
    end.
  Proof.
    intros HI HV H. rewrite (one_sat_tone _ _ _ _ _ _ HI HV H). destruct (tone (neg f) t []) as [p|] eqn:E.
    - destruct (tone_some _ _ _ _ E) as [_ Hs]. exact Hs.
    - pose proof (tone_none _ _ _ E) as Hn. eapply (canon_store s f zero t Leaf); eauto using V_zero.
  Qed.
  Print Assumptions one_sat_ok.
End Paths.
