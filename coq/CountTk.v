From Coq Require Import NArith Bool List Lia.
Require Import Canon SemTk.
Import ListNotations.
Local Open Scope N_scope.

(* exact model counting over an explicit variable list *)
Definition cnt (vs : list N) (F : bfun) (e : env) : nat := length (filter F (assigns vs e)).
Definition count (vs : list N) (F : bfun) : N := N.of_nat (cnt vs F (fun _ => false)).

Lemma assigns_length vs : forall e, length (assigns vs e) = Nat.pow 2 (length vs).
Proof. induction vs as [|v vs IH]; intro e; cbn [assigns length]; [reflexivity|]. rewrite app_length, !IH. cbn. lia. Qed.

Lemma cnt_cons v vs F e : cnt (v :: vs) F e = (cnt vs F (upd e v false) + cnt vs F (upd e v true))%nat.
Proof. unfold cnt. cbn [assigns]. now rewrite filter_app, app_length. Qed.

(* counting only looks at F on the enumerated assignments *)
Lemma filter_len_ext (l : list env) (F F' : bfun) : (forall a, In a l -> F a = F' a) -> length (filter F l) = length (filter F' l).
Proof.
  induction l as [|a l IH]; intro H; cbn; [reflexivity|].
  assert (E : F a = F' a) by (apply H; left; reflexivity). rewrite E.
  assert (IH' : length (filter F l) = length (filter F' l)) by (apply IH; intros; apply H; right; assumption).
  destruct (F' a); cbn; now rewrite IH'.
Qed.
Lemma cnt_ext_on vs F F' e : (forall a, In a (assigns vs e) -> F a = F' a) -> cnt vs F e = cnt vs F' e.
Proof. apply filter_len_ext. Qed.
Lemma cnt_eqe vs : forall F e e', ext F -> eqe e e' -> cnt vs F e = cnt vs F e'.
Proof.
  induction vs as [|v vs IH]; intros F e e' HF E.
  - unfold cnt; cbn. rewrite (HF e e' E). now destruct (F e').
  - rewrite !cnt_cons. f_equal; apply IH; auto using eqe_upd.
Qed.
Lemma upd_upd_same e v b c : eqe (upd (upd e v b) v c) (upd e v c).
Proof. intro w. unfold upd. now destruct (N.eqb w v). Qed.
Lemma upd_comm e v w b c : v <> w -> eqe (upd (upd e v b) w c) (upd (upd e w c) v b).
Proof. intros H x. unfold upd. destruct (N.eqb_spec x w), (N.eqb_spec x v); congruence. Qed.
(* a variable F ignores may be changed in the base environment *)
Lemma cnt_upd vs : forall F e v b, ext F -> indep F v -> cnt vs F (upd e v b) = cnt vs F e.
Proof.
  induction vs as [|w vs IH]; intros F e v b HF IF.
  - unfold cnt; cbn. rewrite IF. now destruct (F e).
  - rewrite !cnt_cons. destruct (N.eq_dec v w) as [->|Hne].
    + rewrite (cnt_eqe vs F _ _ HF (upd_upd_same e w b false)), (cnt_eqe vs F _ _ HF (upd_upd_same e w b true)). reflexivity.
    + rewrite (cnt_eqe vs F _ _ HF (upd_comm e v w b false Hne)), (cnt_eqe vs F _ _ HF (upd_comm e v w b true Hne)).
      rewrite (IH F (upd e w false) v b HF IF), (IH F (upd e w true) v b HF IF). reflexivity.
Qed.

(* Shannon expansion doubles the count: 2 * #F = #F0 + #F1 *)
Lemma cnt_shannon vs : forall (F F0 F1 : bfun) v e, NoDup vs -> In v vs -> ext F -> ext F0 -> ext F1 ->
  (forall a : env, F a = if a v then F1 a else F0 a) -> indep F0 v -> indep F1 v ->
  (2 * cnt vs F e = cnt vs F0 e + cnt vs F1 e)%nat.
Proof.
  induction vs as [|w vs IH]; intros F F0 F1 v e Hnd Hin HF HF0 HF1 SF I0 I1; [destruct Hin|].
  inversion Hnd as [|? ? Hw Hnd']; subst. rewrite !cnt_cons.
  destruct (N.eq_dec w v) as [->|Hne].
  - (* the variable itself: first half sees F0, second half sees F1 *)
    assert (E0 : cnt vs F (upd e v false) = cnt vs F0 (upd e v false)).
    { apply cnt_ext_on. intros a Ha. rewrite SF. rewrite (assigns_out vs _ a Ha v Hw), upd_eq. reflexivity. }
    assert (E1 : cnt vs F (upd e v true) = cnt vs F1 (upd e v true)).
    { apply cnt_ext_on. intros a Ha. rewrite SF. rewrite (assigns_out vs _ a Ha v Hw), upd_eq. reflexivity. }
    rewrite E0, E1. rewrite !(cnt_upd vs F0) by assumption. rewrite !(cnt_upd vs F1) by assumption. lia.
  - destruct Hin as [E|Hin]; [congruence|].
    pose proof (IH F F0 F1 v (upd e w false) Hnd' Hin HF HF0 HF1 SF I0 I1).
    pose proof (IH F F0 F1 v (upd e w true) Hnd' Hin HF HF0 HF1 SF I0 I1). lia.
Qed.
Lemma cnt_neg vs F e : (cnt vs (fun a => negb (F a)) e + cnt vs F e = Nat.pow 2 (length vs))%nat.
Proof.
  unfold cnt. rewrite <- (assigns_length vs e). induction (assigns vs e) as [|a l IH]; cbn; [reflexivity|].
  destruct (F a); cbn; lia.
Qed.
Lemma cnt_le vs F e : (cnt vs F e <= Nat.pow 2 (length vs))%nat.
Proof. pose proof (cnt_neg vs F e). lia. Qed.

(* N-level statements used by sat_count *)
Lemma count_shannon vs (F F0 F1 : bfun) v : NoDup vs -> In v vs -> ext F -> ext F0 -> ext F1 ->
  (forall a : env, F a = if a v then F1 a else F0 a) -> indep F0 v -> indep F1 v ->
  count vs F = (count vs F0 + count vs F1) / 2.
Proof.
  intros Hnd Hin HF HF0 HF1 SF I0 I1. unfold count.
  pose proof (cnt_shannon vs F F0 F1 v (fun _ => false) Hnd Hin HF HF0 HF1 SF I0 I1) as H.
  apply N.div_unique_exact; lia.
Qed.
Lemma count_neg vs F : count vs (fun a => negb (F a)) = 2 ^ N.of_nat (length vs) - count vs F.
Proof.
  unfold count. pose proof (cnt_neg vs F (fun _ => false)) as H.
  assert (E : N.of_nat (Nat.pow 2 (length vs)) = 2 ^ N.of_nat (length vs)).
  { rewrite Nat2N.inj_pow. reflexivity. }
  rewrite <- E. lia.
Qed.
Lemma count_const_true vs : count vs (fun _ => true) = 2 ^ N.of_nat (length vs).
Proof.
  pose proof (count_neg vs (fun _ => false)) as H. cbn in H.
  assert (count vs (fun _ => false) = 0).
  { unfold count, cnt. induction (assigns vs (fun _ => false)); cbn; auto. }
  rewrite H0 in H. rewrite N.sub_0_r in H. exact H.
Qed.

(* adding an unused variable (at the end of the list) doubles the count *)
Lemma cnt_snoc_indep vs : forall (F : bfun) v e, ext F -> indep F v -> cnt (vs ++ [v]) F e = (2 * cnt vs F e)%nat.
Proof.
  induction vs as [|a vs IH]; intros F v e HF HI.
  - cbn [app]. rewrite cnt_cons. unfold cnt. cbn [assigns filter length].
    rewrite !(HI e). destruct (F e); reflexivity.
  - cbn [app]. rewrite !cnt_cons. rewrite !IH by assumption. lia.
Qed.
Lemma count_snoc_indep vs (F : bfun) v : ext F -> indep F v -> count (vs ++ [v]) F = 2 * count vs F.
Proof. intros HF HI. unfold count. rewrite cnt_snoc_indep by assumption. lia. Qed.
