From Coq Require Import Arith NArith Bool List.
Require Import Canon SemTk TableProto BddBase BddIte BddCR BddSat BddCof BddCof2 BddCtor BddEval BddPaths BddReach BddExport BddDot Glue Hashes Machine.
Import ListNotations.
Local Open Scope N_scope.

(* In-kernel evaluation of histories (vm_compute), used by the harness to validate the OCaml extraction on a sample of
   the histories of every run: the digest below is computed here by the kernel's evaluator and, from the text trace of
   the extracted model, by lib/coqeval.py; the two must be equal. *)
Definition sumN (l : list N) : N := fold_left N.add l 0.
Definition lenN {A} (l : list A) : N := N.of_nat (length l).
Definition path_digest (p : path) : list N :=
  [lenN p; sumN (map fst p); lenN (filter (fun x => negb (snd x)) p)].
Fixpoint btok_digest (t : btok) : N * N * N :=    (* nodes written in full, back references, sum of indices *)
  match t with
  | BTop | BBot => (0, 0, 0)
  | BRef r => (0, 1, idx r)
  | BNode r v hi lo =>
    let '(a1, b1, c1) := btok_digest hi in
    let '(a2, b2, c2) := btok_digest lo in
    (1 + a1 + a2, b1 + b2, idx r + v + c1 + c2)
  end.
Definition out_digest (m : mstate) (rs : regs) (o : out) : list N :=
  let tb := tbl (core m) in
  match o with
  | OReg r => [1; idx r; if neg r then 1 else 0; real_size tb; last_index tb]
  | OSkip => [2]
  | OOptBool None => [3; 0] | OOptBool (Some true) => [3; 1] | OOptBool (Some false) => [3; 2]
  | OBool b => [4; if b then 1 else 0]
  | ONum n => [5; n]
  | OList l => [6; lenN l; sumN l]
  | OPath None => [7; 0]
  | OPath (Some p) => 7 :: 1 :: path_digest p
  | OPaths l => 8 :: lenN l :: concat (map path_digest l)
  | OBracket t => let '(a, b, c) := btok_digest t in [9; a; b; c]
  | ODot l => [10; lenN l]
  | OGc => [11; real_size tb; last_index tb; lenN (filter (fun x => match x with None => true | Some _ => false end) rs)]
  end.
Fixpoint run_digest (fuel : nat) (mr : mstate * regs) (h : list hop) : list N :=
  match h with
  | [] => [0]
  | o :: h' =>
    match @step nhash khash memo_ref memo_dm memo_nref memo_refN fuel mr o with
    | Some ((m', rs'), x) => out_digest m' rs' x ++ run_digest fuel (m', rs') h'
    | None => [99]
    end
  end.
Definition eval_history (bm cm sm cap : N) (h : list hop) : list N :=
  run_digest (N.to_nat 3000) (init bm cm sm cap, []) h.

(* the model reproduces the handle numbers asserted by the repository's own tests:
   test_to_bracket_string_2: ~x1 | (~x2 & x3) = ~@6:(x1, @5:(x2, T, ~@4:(x3,T,F)), F) in Bdd::default() *)
Example repo_test_handles :
  eval_history 65535 65535 65535 1048576
    [HVar 1; HVar 2; HVar 3; HBin BAnd (1%nat, true) (2%nat, false); HBin BOr (0%nat, true) (3%nat, false)]
  = [1; 2; 0; 2; 2;  1; 3; 0; 3; 3;  1; 4; 0; 4; 4;  1; 5; 1; 5; 5;  1; 6; 1; 6; 6;  0].
Proof. vm_compute. reflexivity. Qed.
