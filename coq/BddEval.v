From Coq Require Import NArith Bool Lia List.
Require Import Canon SemTk BddBase BddIte.
Import ListNotations.
Local Open Scope N_scope.

Section Eval.
  Context {SO : StoreOps} {OK : StoreOK}.

  (* src/bdd.rs connectives: ITE instances *)
  Definition apply_and fuel s u v := ite fuel s u v zero.
  Definition apply_or fuel s u v := ite fuel s u one v.
  Definition apply_xor fuel s u v := ite fuel s u (rneg v) v.
  Definition apply_eq fuel s u v := ite fuel s u v (rneg v).
  Definition apply_imply fuel s u v := ite fuel s u v one.

  Definition BPost (s s' : st) (r : ref) (F : bfun) : Prop :=
    Inv s' /\ CInv s' /\ sext s s' /\ exists tr, V s' r tr /\ forall e, rsem r tr e = F e.

  Lemma and_ok fuel s u v s' r tu tv : Inv s -> CInv s -> V s u tu -> V s v tv ->
    apply_and fuel s u v = Some (s', r) -> BPost s s' r (fun e => rsem u tu e && rsem v tv e).
  Proof.
    intros HT HC Vu Vv H. unfold apply_and in H. destruct (ite_ok _ _ _ _ _ _ _ _ _ _ HT HC H Vu Vv (V_zero _)) as (HT' & HC' & E' & tr & Vr & Sr & _).
    unfold BPost. splits; auto. exists tr. split; [exact Vr|]. intro e. rewrite Sr, rsem_zero. now destruct (rsem u tu e), (rsem v tv e).
  Qed.
  Lemma or_ok fuel s u v s' r tu tv : Inv s -> CInv s -> V s u tu -> V s v tv ->
    apply_or fuel s u v = Some (s', r) -> BPost s s' r (fun e => rsem u tu e || rsem v tv e).
  Proof.
    intros HT HC Vu Vv H. unfold apply_or in H. destruct (ite_ok _ _ _ _ _ _ _ _ _ _ HT HC H Vu (V_one _) Vv) as (HT' & HC' & E' & tr & Vr & Sr & _).
    unfold BPost. splits; auto. exists tr. split; [exact Vr|]. intro e. rewrite Sr, rsem_one. now destruct (rsem u tu e), (rsem v tv e).
  Qed.
  Lemma xor_ok fuel s u v s' r tu tv : Inv s -> CInv s -> V s u tu -> V s v tv ->
    apply_xor fuel s u v = Some (s', r) -> BPost s s' r (fun e => xorb (rsem u tu e) (rsem v tv e)).
  Proof.
    intros HT HC Vu Vv H. unfold apply_xor in H. destruct (ite_ok _ _ _ _ _ _ _ _ _ _ HT HC H Vu (V_neg _ _ _ Vv) Vv) as (HT' & HC' & E' & tr & Vr & Sr & _).
    unfold BPost. splits; auto. exists tr. split; [exact Vr|]. intro e. rewrite Sr, rsem_neg. now destruct (rsem u tu e), (rsem v tv e).
  Qed.
  Lemma eq_ok fuel s u v s' r tu tv : Inv s -> CInv s -> V s u tu -> V s v tv ->
    apply_eq fuel s u v = Some (s', r) -> BPost s s' r (fun e => Bool.eqb (rsem u tu e) (rsem v tv e)).
  Proof.
    intros HT HC Vu Vv H. unfold apply_eq in H. destruct (ite_ok _ _ _ _ _ _ _ _ _ _ HT HC H Vu Vv (V_neg _ _ _ Vv)) as (HT' & HC' & E' & tr & Vr & Sr & _).
    unfold BPost. splits; auto. exists tr. split; [exact Vr|]. intro e. rewrite Sr, rsem_neg. now destruct (rsem u tu e), (rsem v tv e).
  Qed.
  Lemma imply_ok fuel s u v s' r tu tv : Inv s -> CInv s -> V s u tu -> V s v tv ->
    apply_imply fuel s u v = Some (s', r) -> BPost s s' r (fun e => implb (rsem u tu e) (rsem v tv e)).
  Proof.
    intros HT HC Vu Vv H. unfold apply_imply in H. destruct (ite_ok _ _ _ _ _ _ _ _ _ _ HT HC H Vu Vv (V_one _)) as (HT' & HC' & E' & tr & Vr & Sr & _).
    unfold BPost. splits; auto. exists tr. split; [exact Vr|]. intro e. rewrite Sr, rsem_one. now destruct (rsem u tu e), (rsem v tv e).
  Qed.

  (* src/eval.rs *)
  Inductive expr := ETerm (r : ref) | ENot (a : expr) | EAnd (a b : expr) | EOr (a b : expr) | EXor (a b : expr).
  Definition enot (v : expr) : expr :=
    match v with ETerm t => ETerm (rneg t) | ENot i => i | _ => ENot v end.
  Fixpoint eval (fuel : nat) (s : st) (x : expr) : option (st * ref) :=
    match x with
    | ETerm t => Some (s, t)
    | ENot i => match eval fuel s i with Some (s1, r) => Some (s1, rneg r) | None => None end
    | EAnd a b => match eval fuel s a with None => None | Some (s1, ra) =>
                  match eval fuel s1 b with None => None | Some (s2, rb) => apply_and fuel s2 ra rb end end
    | EOr a b => match eval fuel s a with None => None | Some (s1, ra) =>
                 match eval fuel s1 b with None => None | Some (s2, rb) => apply_or fuel s2 ra rb end end
    | EXor a b => match eval fuel s a with None => None | Some (s1, ra) =>
                  match eval fuel s1 b with None => None | Some (s2, rb) => apply_xor fuel s2 ra rb end end
    end.

  (* meaning of an expression, given the trees of its terms *)
  Fixpoint esem (tt : ref -> tree) (x : expr) (e : env) : bool :=
    match x with
    | ETerm r => rsem r (tt r) e
    | ENot a => negb (esem tt a e)
    | EAnd a b => esem tt a e && esem tt b e
    | EOr a b => esem tt a e || esem tt b e
    | EXor a b => xorb (esem tt a e) (esem tt b e)
    end.
  Fixpoint terms_ok (s : st) (tt : ref -> tree) (x : expr) : Prop :=
    match x with
    | ETerm r => V s r (tt r)
    | ENot a => terms_ok s tt a
    | EAnd a b | EOr a b | EXor a b => terms_ok s tt a /\ terms_ok s tt b
    end.
  Lemma terms_ok_ext s s' tt x : sext s s' -> terms_ok s tt x -> terms_ok s' tt x.
  Proof. intro E. induction x; cbn; intuition eauto using V_ext. Qed.

  Theorem eval_ok fuel tt : forall x s s' r, Inv s -> CInv s -> terms_ok s tt x -> eval fuel s x = Some (s', r) ->
    BPost s s' r (esem tt x).
  Proof.
    induction x as [t|a IHa|a IHa b IHb|a IHa b IHb|a IHa b IHb]; intros s s' r HT HC Hok H; cbn [eval] in H.
    - injection H as <- <-. unfold BPost. splits; auto using sext_refl. exists (tt t). split; auto.
    - destruct (eval fuel s a) as [[s1 r1]|] eqn:Ha; [|discriminate]. injection H as <- <-.
      destruct (IHa _ _ _ HT HC Hok Ha) as (? & ? & ? & tr & Vr & Sr).
      unfold BPost. splits; auto. exists tr. split; [apply V_neg; exact Vr|]. intro e. rewrite rsem_neg, Sr. reflexivity.
    - destruct Hok as [Oa Ob].
      destruct (eval fuel s a) as [[s1 ra]|] eqn:Ha; [|discriminate]. destruct (eval fuel s1 b) as [[s2 rb]|] eqn:Hb; [|discriminate].
      destruct (IHa _ _ _ HT HC Oa Ha) as (HT1 & HC1 & E1 & ta & Va & Sa).
      destruct (IHb _ _ _ HT1 HC1 (terms_ok_ext _ _ _ _ E1 Ob) Hb) as (HT2 & HC2 & E2 & tb & Vb & Sb).
      destruct (and_ok _ _ _ _ _ _ _ _ HT2 HC2 (V_ext _ _ _ _ E2 Va) Vb H) as (HT3 & HC3 & E3 & tr & Vr & Sr).
      unfold BPost. splits; eauto using sext_trans. exists tr. split; auto. intro e. rewrite Sr, Sa, Sb. reflexivity.
    - destruct Hok as [Oa Ob].
      destruct (eval fuel s a) as [[s1 ra]|] eqn:Ha; [|discriminate]. destruct (eval fuel s1 b) as [[s2 rb]|] eqn:Hb; [|discriminate].
      destruct (IHa _ _ _ HT HC Oa Ha) as (HT1 & HC1 & E1 & ta & Va & Sa).
      destruct (IHb _ _ _ HT1 HC1 (terms_ok_ext _ _ _ _ E1 Ob) Hb) as (HT2 & HC2 & E2 & tb & Vb & Sb).
      destruct (or_ok _ _ _ _ _ _ _ _ HT2 HC2 (V_ext _ _ _ _ E2 Va) Vb H) as (HT3 & HC3 & E3 & tr & Vr & Sr).
      unfold BPost. splits; eauto using sext_trans. exists tr. split; auto. intro e. rewrite Sr, Sa, Sb. reflexivity.
    - destruct Hok as [Oa Ob].
      destruct (eval fuel s a) as [[s1 ra]|] eqn:Ha; [|discriminate]. destruct (eval fuel s1 b) as [[s2 rb]|] eqn:Hb; [|discriminate].
      destruct (IHa _ _ _ HT HC Oa Ha) as (HT1 & HC1 & E1 & ta & Va & Sa).
      destruct (IHb _ _ _ HT1 HC1 (terms_ok_ext _ _ _ _ E1 Ob) Hb) as (HT2 & HC2 & E2 & tb & Vb & Sb).
      destruct (xor_ok _ _ _ _ _ _ _ _ HT2 HC2 (V_ext _ _ _ _ E2 Va) Vb H) as (HT3 & HC3 & E3 & tr & Vr & Sr).
      unfold BPost. splits; eauto using sext_trans. exists tr. split; auto. intro e. rewrite Sr, Sa, Sb. reflexivity.
  Qed.
  (* the simplifying constructor never changes the meaning *)
  Lemma enot_sem tt x e : (forall r, tt (rneg r) = tt r) -> esem tt (enot x) e = negb (esem tt x e).
  Proof. intro Ht. destruct x; cbn; auto; [rewrite Ht; apply rsem_neg|now rewrite negb_involutive]. Qed.
  Lemma enot_terms s tt x : terms_ok s tt x -> (forall r, tt (rneg r) = tt r) -> terms_ok s tt (enot x).
  Proof. destruct x; cbn; auto. intros Hv Ht. rewrite Ht. apply V_neg. exact Hv. Qed.

  (* n-ary folds: apply_and_many / apply_or_many *)
  Fixpoint and_many (fuel : nat) (s : st) (acc : ref) (l : list ref) : option (st * ref) :=
    match l with [] => Some (s, acc) | x :: r => match apply_and fuel s acc x with Some (s1, a1) => and_many fuel s1 a1 r | None => None end end.
  Fixpoint or_many (fuel : nat) (s : st) (acc : ref) (l : list ref) : option (st * ref) :=
    match l with [] => Some (s, acc) | x :: r => match apply_or fuel s acc x with Some (s1, a1) => or_many fuel s1 a1 r | None => None end end.

  Lemma and_many_ok fuel : forall l (tts : list tree) s acc tacc s' r, Inv s -> CInv s -> V s acc tacc ->
    Forall2 (fun x t => V s x t) l tts -> and_many fuel s acc l = Some (s', r) ->
    BPost s s' r (fun e => rsem acc tacc e && forallb (fun xt => rsem (fst xt) (snd xt) e) (combine l tts)).
  Proof.
    induction l as [|x l IH]; intros tts s acc tacc s' r HI HC Va Hf H; cbn [and_many] in H.
    - injection H as <- <-. inversion Hf; subst. unfold BPost. splits; auto using sext_refl. exists tacc. split; auto. intro e. cbn. now rewrite andb_true_r.
    - inversion Hf as [|? t ? tts' Vx Hf']; subst.
      destruct (apply_and fuel s acc x) as [[s1 a1]|] eqn:Ha; [|discriminate].
      destruct (and_ok _ _ _ _ _ _ _ _ HI HC Va Vx Ha) as (HI1 & HC1 & E1 & t1 & V1 & S1).
      assert (Hf1 : Forall2 (fun x t => V s1 x t) l tts') by (clear -Hf' E1; induction Hf'; constructor; eauto using V_ext).
      destruct (IH tts' s1 a1 t1 s' r HI1 HC1 V1 Hf1 H) as (HI2 & HC2 & E2 & tr & Vr & Sr).
      unfold BPost. splits; eauto using sext_trans. exists tr. split; auto. intro e. rewrite Sr, S1. cbn [combine forallb fst snd]. now rewrite andb_assoc.
  Qed.
  Lemma or_many_ok fuel : forall l (tts : list tree) s acc tacc s' r, Inv s -> CInv s -> V s acc tacc ->
    Forall2 (fun x t => V s x t) l tts -> or_many fuel s acc l = Some (s', r) ->
    BPost s s' r (fun e => rsem acc tacc e || existsb (fun xt => rsem (fst xt) (snd xt) e) (combine l tts)).
  Proof.
    induction l as [|x l IH]; intros tts s acc tacc s' r HI HC Va Hf H; cbn [or_many] in H.
    - injection H as <- <-. inversion Hf; subst. unfold BPost. splits; auto using sext_refl. exists tacc. split; auto. intro e. cbn. now rewrite orb_false_r.
    - inversion Hf as [|? t ? tts' Vx Hf']; subst.
      destruct (apply_or fuel s acc x) as [[s1 a1]|] eqn:Ha; [|discriminate].
      destruct (or_ok _ _ _ _ _ _ _ _ HI HC Va Vx Ha) as (HI1 & HC1 & E1 & t1 & V1 & S1).
      assert (Hf1 : Forall2 (fun x t => V s1 x t) l tts') by (clear -Hf' E1; induction Hf'; constructor; eauto using V_ext).
      destruct (IH tts' s1 a1 t1 s' r HI1 HC1 V1 Hf1 H) as (HI2 & HC2 & E2 & tr & Vr & Sr).
      unfold BPost. splits; eauto using sext_trans. exists tr. split; auto. intro e. rewrite Sr, S1. cbn [combine existsb fst snd]. now rewrite orb_assoc.
  Qed.

  (* is_implies = (ite_constant(f, g, 1) == Some(true)) *)
  Definition is_implies (fuel : nat) (s : st) (f g : ref) : option bool :=
    match itec fuel s f g one with Some o => Some (obool_eqb o (Some true)) | None => None end.
  Theorem is_implies_ok fuel s f g b tf tg : Inv s -> CInv s -> V s f tf -> V s g tg -> is_implies fuel s f g = Some b ->
    (b = true <-> forall e, rsem f tf e = true -> rsem g tg e = true).
  Proof.
    intros HI HC Vf Vg H. unfold is_implies in H. destruct (itec fuel s f g one) as [o|] eqn:E; [|discriminate]. injection H as <-.
    pose proof (itec_ok _ _ _ _ _ _ _ _ _ HI HC E Vf Vg (V_one s)) as P.
    destruct o as [[|]|]; cbn in P |- *.
    - split; [intros _ e He|reflexivity]. specialize (P e). rewrite He in P. exact P.
    - split; [discriminate|]. intro Himp. exfalso. specialize (P (fun _ => true)).
      destruct (rsem f tf (fun _ => true)) eqn:F1; [rewrite (Himp _ F1) in P|]; cbn in P; discriminate P.
    - split; [discriminate|]. intro Himp. exfalso. apply (P true). intro e. destruct (rsem f tf e) eqn:F1; [now apply Himp|reflexivity].
  Qed.
  Print Assumptions is_implies_ok.
End Eval.
